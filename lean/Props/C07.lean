import Core
import Algo
set_option linter.unusedSectionVars false
/-! # C07 — no memory errors, and limit overruns stop with a panic (PARTIAL: see DESIGN.md §7 C07)

The model describes the *observable* behaviour of the three container crates, including where they panic in a
build with debug assertions; it cannot exhibit what their `unsafe` code does to memory. What a theorem can carry
is stated here; the memory half is examined by running the same operation files on a harness built with
AddressSanitizer (every call of every file, incl. limit-violating ones and calls after a caught panic). -/
namespace Props.C07
open Sodg
variable {L D : Type} [DecidableEq L] [Inhabited D]

/-- calls within the limits complete, on every state reachable by a valid history (any length, any N, any cap) -/
theorem within_limits_complete {n c : Nat} {g : G L D} {r : R L D} {P : List (Nat × Nat)} (h : Reach n c g r P)
    (op : Op L D) (ok : OkStep n c r op) :
    ∃ g', step g op = some (g', (R.step c r op).2) ∧ Reach n c g' (R.step c r op).1 (pairsStep r P op) :=
  h.next op ok

/-- an id at or above the capacity stops every call with a panic (`none`), in every state -/
theorem id_overrun_panics (g : G L D) (v : Nat) (hv : cap g ≤ v) :
    add g v = none ∧ (∀ d, put g v d = none) ∧ data g v = none ∧ (∀ a, kid g v a = none) ∧ kids g v = none ∧
    (∀ w a, Sodg.bind g v w a = none) ∧ (∀ w a, Sodg.bind g w v a = none) := by
  have hn : ¬ v < cap g := by omega
  refine ⟨by simp [add, hn], fun d => by simp [put, hn], by simp [data, hn], fun a => by simp [kid, hn],
    by simp [kids, hn], fun w a => by simp [Sodg.bind, hn], fun w a => by simp [Sodg.bind, hn]⟩

/-- the (N+1)-th distinct label on a vertex stops `bind` with a panic before anything is written -/
theorem label_overrun_panics (g : G L D) (v1 v2 : Nat) (a : L) (h : g.n < (upsert (edg g v1) a v2).length) :
    Sodg.bind g v1 v2 a = none := by
  unfold Sodg.bind
  split
  · rw [if_neg (by omega)]
  · rfl

/-- the 17-th member of a group stops the join with a panic -/
theorem member_overrun_panics (g : G L D) (v b : Nat) (h : 16 ≤ (mem g b).length) : joinGrp g v b = none := by
  unfold joinGrp; rw [if_neg (by omega)]

/-- in every reachable state the indices the operations compute themselves are in range: both 16-entry tables
    have 16 entries, every group tag of a slot is below 16, every recorded member is below the capacity and every
    stored edge target is below the capacity — so the only out-of-range indices that can reach a container are
    caller-supplied ids, which the containers check in builds with debug assertions -/
theorem computed_indices_in_range {n c : Nat} {g : G L D} {r : R L D} {P : List (Nat × Nat)} (h : Reach n c g r P) :
    g.br.size = 16 ∧ g.st.size = 16 ∧ (∀ v, v < cap g → tag g v < 16) ∧
    (∀ b, 2 ≤ b → b < 16 → ∀ v ∈ mem g b, v < cap g) ∧ (∀ u, ∀ e ∈ edg g u, e.2 < cap g) ∧
    (∀ b, 2 ≤ b → b < 16 → (mem g b).length ≤ cap g) := by
  obtain ⟨hr, _, _, _, _⟩ := h.inv
  have i := hr.inv
  refine ⟨i.brsz, i.stsz, i.taglt, fun b h2 h16 v hv => (i.memb b h2 h16 v hv).1, h.edgesBelow, ?_⟩
  intro b h2 h16
  have nd := i.nodup b h2 h16
  have sub : ∀ v ∈ mem g b, v ∈ List.range (cap g) := fun v hv => by simp [(i.memb b h2 h16 v hv).1]
  have := nd.length_le_of_subset sub
  simpa using this

/-! ### every call sequence (the total model, Core/Total.lean)

`stepT` returns the state a call leaves behind even when it panics (what `catch_unwind` sees) and follows the code
where it silently goes on without a free group slot. It agrees with `step` wherever `step` answers, and the
correspondence check compares it with the real crate on every call *after* a panic too (soak mode of the harness). -/

/-- the total step agrees with `step` wherever `step` answers — every theorem about `step` is one about `stepT` -/
theorem total_agrees (g g' : G L D) (op : Op L D) (o : Out L D) (h : step g op = some (g', o)) :
    stepT g op = (g', some o) := stepT_of_step g g' op o h

/-- **for every call sequence** — valid or not, within the limits or beyond them, with any number of panics in it —
    the state after the sequence satisfies the memory-safety invariant: both group tables have 16 entries, every group
    tag is below 16, every recorded member and every stored edge target is below the capacity, no member list holds more
    than 16 ids and no vertex more than `N` edges. So every index the code computes by itself is in range, always. -/
theorem any_sequence_keeps_indices_in_range (n c : Nat) (hc : 0 < c) (ops : List (Op L D)) :
    MS (runT (empty n c : G L D) ops).1 := ms_runT ops _ (ms_empty n c hc)

/-- one call, from any state that satisfies it, panicking or not -/
theorem any_call_keeps_indices_in_range (g : G L D) (h : MS g) (op : Op L D) : MS (stepT g op).1 := ms_stepT g h op

/-- **where a call panics**: exactly at an id at or above the capacity, at an (N+1)-th label, at a 17-th member of a
    member list, at a first read whose group counter is zero (reachable only after an earlier limit overrun: Theorem A
    excludes it inside the limits), at an exhausted allocator — or at a tag of 16 or more, which `MS` excludes -/
theorem panics_exactly_at (g : G L D) (op : Op L D) : (stepT g op).2 = none ↔ Panics g op := panics_iff g op

/-- in every state any call sequence reaches, `put` panics only for an id beyond the capacity and `data` only for such
    an id or a zero counter: never because of an index the code computed -/
theorem put_data_panic_only_on_caller_ids (n c : Nat) (hc : 0 < c) (ops : List (Op L D)) (v : Nat) (d : D) :
    let g := (runT (empty n c : G L D) ops).1
    ((stepT g (.put v d)).2 = none ↔ cap g ≤ v) ∧
    ((stepT g (.data v)).2 = none ↔ (cap g ≤ v ∨ (pers g v = .stored ∧ tag g v ≠ 1 ∧ cnt g (tag g v) = 0))) :=
  panics_ms _ (any_sequence_keeps_indices_in_range n c hc ops) v d

/-- a panicking call never changes the capacity, nor does any other -/
theorem capacity_is_fixed (g : G L D) (op : Op L D) : cap (stepT g op).1 = cap g := cap_stepT g op

/-- **`merge` too**: the left graph satisfies the memory-safety invariant after `merge` whether the call returns `Ok`,
    returns `Err`, or panics half-way through its `put`/`next_id`/`add`/`bind` calls (`mergeT`, Core/TotalProg.lean: the
    program of `merge` interpreted over the total step; equal to `merge` wherever `merge` answers). Not covered: merges
    that reach `join` (non-tree right graphs, outside `merge`'s documented precondition and outside the model). -/
theorem merge_keeps_indices_in_range (g h : G L D) (hg : MS g) (left right : Nat) : MS (mergeT g h left right).1 :=
  ms_mergeT g h hg left right

theorem mergeT_agrees (g h g' : G L D) (left right : Nat) (out : MergeOut) (hm : merge g h left right = some (g', out)) :
    mergeT g h left right = (g', some out) := mergeT_of_merge g h g' left right out hm

/-- **a script too**: the graph satisfies the invariant after `deploy_to`, whether the script ran to its end, stopped at a
    malformed command (`Err`) or at a call that panicked (Algo/ScriptTotal.lean; on a panic the state of the model is the
    one before the panicking call, the real one is one `stepT` further: `any_call_keeps_indices_in_range`) -/
theorem script_keeps_indices_in_range (text : List Char) (g : G Lb.Label Hx.Hex) (h : MS g) : MS (Ss.deploy text g).1.g :=
  Ss.ms_deploy text g h

/-- **and a slice**: the graph `slice`/`slice_some` returns is built from `empty` by `add`/`bind` calls, so it satisfies the
    invariant; the source is not touched (`&self`) -/
theorem slice_keeps_indices_in_range (g g' : G L D) (v : Nat) (p : Nat → Nat → L → Bool) (hc : 0 < cap g)
    (hs : sliceSome g v p = some g') : MS g' := ms_sliceSome g g' v p hc hs

/-! non-vacuity: a concrete abusive history (labels and data are `Nat`): the 17-th member panics after its tag was
    written; the handle goes on; puts on the half-joined vertex are counted for the group, so the group dies at the
    second read and leaves the half-joined vertex behind, tagged with a group it is not a member of; an id beyond the
    capacity panics without a trace; the allocator still answers -/
def abuse17 : List (Op Nat Nat) :=
  [.add 0] ++ (List.range 16).flatMap (fun i => [Op.add (i + 1), Op.bind (i + 1) i 0]) ++
  [.put 16 7, .put 3 9, .data 16, .data 3, .put 99 1, .nextId, .keys]

/-- outputs as numbers (0 = panic) -/
def code : Option (Out Nat Nat) → List Nat
  | none => [0]
  | some .unit => [1]
  | some (.data none) => [2]
  | some (.data (some d)) => [3, d]
  | some (.kid _) => [4]
  | some (.kids _) => [5]
  | some (.keys ks) => 6 :: ks
  | some (.id i) => [7, i]

example : (((runT (empty 2 20 : G Nat Nat) abuse17).2.drop 32).map code) =
      [[0], [1], [1], [3, 7], [3, 9], [0], [7, 0], [6, 16]] ∧
    tag (runT (empty 2 20 : G Nat Nat) abuse17).1 16 = 2 ∧ mem (runT (empty 2 20 : G Nat Nat) abuse17).1 2 = [] := by
  decide +kernel

/-! ### `join`: non-tree merges, removed slots (Core/Holes.lean, Core/MergeHoles.lean)

`join()` of `merge.rs` — reached only when the right graph is not a tree — removes a slot of the vertex store. `GX` is a
graph with its removed slots, `stepX` the total step on it (a call on a removed slot panics, `keys()` and the allocator
skip it, a collection panics half-way at a removed member), `mergeX` is `merge()` in full with `join`. -/

/-- with no removed slot nothing changes: `stepX` is `stepT`, so all of the above carries over -/
theorem without_removed_slots_same_step (g : G L D) (op : Op L D) :
    stepX ⟨g, []⟩ (.core op) = (⟨(stepT g op).1, []⟩, (stepT g op).2) := stepX_nohole g op

/-- **every call keeps the invariant, `join` included**: core calls on graphs with removed slots and the `join` step of
    `merge_rec`'s second loop, completing or panicking half-way -/
theorem any_call_with_removed_slots_keeps_indices_in_range (x : GX L D) (h : MSX x) (op : OpX L D) : MSX (stepX x op).1 :=
  msx_stepX x h op

theorem any_sequence_with_joins_keeps_indices_in_range (n c : Nat) (hc : 0 < c) (ops : List (OpX L D)) :
    MSX (runX (⟨empty n c, []⟩ : GX L D) ops).1 :=
  msx_runX ops _ (msx_of_ms _ (ms_empty n c hc))

/-- **`merge` of arbitrary graphs** — trees or not, with removed slots on either side — returning `Ok`, `Err` or panicking
    half-way, inside `join` or outside: the left graph keeps the invariant (this closes the gap left by
    `merge_keeps_indices_in_range`, which stopped at `join`) -/
theorem merge_of_any_graphs_keeps_indices_in_range (x hx : GX L D) (h : MSX x) (left right : Nat) :
    MSX (mergeX x hx left right).1 := msx_mergeX x hx h left right

/-- **where a call panics on a graph with removed slots**: exactly at an id argument that cannot be read (at or above the
    capacity, or removed by `join`), at one of the points of `panics_exactly_at`, or — `data` only — when the read makes a
    group die that has a removed member (the collection loop's `get_mut(member).unwrap()`); never anywhere else -/
theorem panics_exactly_at_with_removed_slots (x : GX L D) (op : Op L D) :
    (stepX x (.core op)).2 = none ↔ PanicsX x op := panicsX_iff x op

/-- **`merge` ends by itself on every pair of graphs** — cyclic right graphs included: what stops `merge_rec` is its table (a
    vertex in it is not entered again, every call that goes on puts one in), and the fuel `cap + 1` the model starts it with
    is never what ends the run: every larger fuel gives the same run (Core/MergeFuel.lean) -/
theorem merge_terminates_without_the_fuel (x hx : GX L D) (f left right : Nat) (hf : cap hx.g + 1 ≤ f) :
    P.runT stepX (mergeRecX (viewOfX hx) f left right []) x =
      P.runT stepX (mergeRecX (viewOfX hx) (cap hx.g + 1) left right []) x := mergeX_fuel x hx f left right hf

/-- **a script on any graph** — with removed slots, beyond the group limit, after a panic: `deployX` (Algo/ScriptHoles.lean) is the
    same front end over the total step; however the text ends, the graph keeps the invariant -/
theorem script_on_any_graph_keeps_indices_in_range (text : List Char) (x : GX Lb.Label Hx.Hex) (h : MSX x) :
    MSX (Ss.deployX text x).1.x := Ss.msx_deployX text x h

/-- what the first loop of `join` does: in every vertex of the list (the present ones) every edge into `frm` is re-targeted to `to`
    in place — labels, their order and every other edge stay; no other vertex is touched -/
theorem join_retargets_in_place (ks : List Nat) (frm to : Nat) (g : G L D) (v : Nat) :
    edg (retargetAll g ks frm to) v = if v ∈ ks ∧ v < cap g then retarget (edg g v) frm to else edg g v :=
  edg_retargetAll ks frm to g v

/-- after a completed `join` the slot is gone: a removed slot, not a key, not readable -/
theorem join_removes_the_slot (x : GX L D) (left right : Nat) (h : (joinX x left right).2 = true) :
    right ∈ (joinX x left right).1.holes ∧ right ∉ keysX (joinX x left right).1 ∧ (joinX x left right).1.acc right = false :=
  joinX_removes x left right h

/-! non-vacuity: the smallest situation in which `join` runs. Left: ν0 with kids ν1 (label 0) and ν2 (label 1). A right
    graph whose root has *one* kid under both labels maps that kid to ν1 in the first loop; the second loop then finds ν2
    under label 1 and calls `join(ν2, ν1)` — the step `fix 0 1 1`: the edge into ν1 is re-targeted to ν2 and slot 1 is
    removed; afterwards `kids(1)` and `add(1)` panic, `keys()` skips the slot, both edges of ν0 lead to ν2. (The whole
    `merge` of these two graphs is evaluated by the driver: `#eval (mergeX joinLeft joinRight 0 0)` gives the same state;
    `mergeRecX` is defined by well-founded recursion, which the kernel does not unfold, so the witness is stated on the
    step.) -/
def joinLeft : GX Nat Nat :=
  ⟨(runT (empty 4 4 : G Nat Nat) [.add 0, .add 1, .add 2, .bind 0 1 0, .bind 0 2 1]).1, []⟩
def joinRight : GX Nat Nat :=
  ⟨(runT (empty 4 4 : G Nat Nat) [.add 0, .add 1, .bind 0 1 0, .bind 0 1 1]).1, []⟩

example : (stepX joinLeft (.fix 0 1 1)).2.isSome = true ∧ (stepX joinLeft (.fix 0 1 1)).1.holes = [1] ∧
    keysX (stepX joinLeft (.fix 0 1 1)).1 = [0, 2] ∧ edg (stepX joinLeft (.fix 0 1 1)).1.g 0 = [(0, 2), (1, 2)] ∧
    (stepX (stepX joinLeft (.fix 0 1 1)).1 (.core (.kids 1))).2.isNone = true ∧
    (stepX (stepX joinLeft (.fix 0 1 1)).1 (.core (.add 1))).2.isNone = true := by
  decide +kernel

end Props.C07
