import Core
set_option linter.unusedSectionVars false
/-! # C07 — no memory errors, and limit overruns stop with a panic (PARTIAL: see DESIGN.md §7 C07)

The model describes the *observable* behaviour of the three container crates, including where they panic in a
build with debug assertions; it cannot exhibit what their `unsafe` code does to memory. What a theorem can carry
is stated here; the memory half is examined by running the same operation files on a harness built with
AddressSanitizer (every call of every file, incl. limit-violating ones and calls after a caught panic). -/
namespace Props.C07
open Sodg
variable {L D : Type} [DecidableEq L] [Inhabited D]

/-- calls within the limits complete, on every state reachable by a valid history (any length, any N, any cap) -/
theorem within_limits_complete {n c : Nat} {g : G L D} {r : R L D} {P : List (Nat × Nat)} (h : Reach n c g r P)
    (op : Op L D) (ok : OkStep n c r op) :
    ∃ g', step g op = some (g', (R.step c r op).2) ∧ Reach n c g' (R.step c r op).1 (pairsStep r P op) :=
  h.next op ok

/-- an id at or above the capacity stops every call with a panic (`none`), in every state -/
theorem id_overrun_panics (g : G L D) (v : Nat) (hv : cap g ≤ v) :
    add g v = none ∧ (∀ d, put g v d = none) ∧ data g v = none ∧ (∀ a, kid g v a = none) ∧ kids g v = none ∧
    (∀ w a, Sodg.bind g v w a = none) ∧ (∀ w a, Sodg.bind g w v a = none) := by
  have hn : ¬ v < cap g := by omega
  refine ⟨by simp [add, hn], fun d => by simp [put, hn], by simp [data, hn], fun a => by simp [kid, hn],
    by simp [kids, hn], fun w a => by simp [Sodg.bind, hn], fun w a => by simp [Sodg.bind, hn]⟩

/-- the (N+1)-th distinct label on a vertex stops `bind` with a panic before anything is written -/
theorem label_overrun_panics (g : G L D) (v1 v2 : Nat) (a : L) (h : g.n < (upsert (edg g v1) a v2).length) :
    Sodg.bind g v1 v2 a = none := by
  unfold Sodg.bind
  split
  · rw [if_neg (by omega)]
  · rfl

/-- the 17-th member of a group stops the join with a panic -/
theorem member_overrun_panics (g : G L D) (v b : Nat) (h : 16 ≤ (mem g b).length) : joinGrp g v b = none := by
  unfold joinGrp; rw [if_neg (by omega)]

/-- in every reachable state the indices the operations compute themselves are in range: both 16-entry tables
    have 16 entries, every group tag of a slot is below 16, every recorded member is below the capacity and every
    stored edge target is below the capacity — so the only out-of-range indices that can reach a container are
    caller-supplied ids, which the containers check in builds with debug assertions -/
theorem computed_indices_in_range {n c : Nat} {g : G L D} {r : R L D} {P : List (Nat × Nat)} (h : Reach n c g r P) :
    g.br.size = 16 ∧ g.st.size = 16 ∧ (∀ v, v < cap g → tag g v < 16) ∧
    (∀ b, 2 ≤ b → b < 16 → ∀ v ∈ mem g b, v < cap g) ∧ (∀ u, ∀ e ∈ edg g u, e.2 < cap g) ∧
    (∀ b, 2 ≤ b → b < 16 → (mem g b).length ≤ cap g) := by
  obtain ⟨hr, _, _, _, _⟩ := h.inv
  have i := hr.inv
  refine ⟨i.brsz, i.stsz, i.taglt, fun b h2 h16 v hv => (i.memb b h2 h16 v hv).1, h.edgesBelow, ?_⟩
  intro b h2 h16
  have nd := i.nodup b h2 h16
  have sub : ∀ v ∈ mem g b, v ∈ List.range (cap g) := fun v hv => by simp [(i.memb b h2 h16 v hv).1]
  have := nd.length_le_of_subset sub
  simpa using this

end Props.C07
