import Core
set_option linter.unusedSectionVars false
/-! # C19 — behaviour is deterministic and independent of N and capacity -/
namespace Props.C19
open Sodg
variable {L D : Type} [DecidableEq L] [Inhabited D]

/-- a history within the limits of two configurations gets identical answers under both, call by call:
    alive sets, data, the enumeration order of `kids`, the ids chosen by `next_id` -/
theorem config_independent (n1 c1 n2 c2 : Nat) (ops : List (Op L D))
    (hv1 : Valid n1 c1 (R.empty : R L D) ops) (hv2 : Valid n2 c2 (R.empty : R L D) ops) :
    run (empty n1 c1 : G L D) ops = run (empty n2 c2 : G L D) ops := Sodg.config_independent n1 c1 n2 c2 ops hv1 hv2

/-- one call of the reference under two capacities -/
theorem step_independent (n1 c1 n2 c2 : Nat) (r : R L D) (op : Op L D) (hb1 : Below c1 r) (hb2 : Below c2 r)
    (ok1 : OkStep n1 c1 r op) (ok2 : OkStep n2 c2 r op) : R.step c1 r op = R.step c2 r op :=
  R.step_indep n1 c1 n2 c2 r op hb1 hb2 ok1 ok2

/-- programs over the API (`merge`, slice rebuild, scripts) inherit it: they return what they return on the
    reference -/
theorem programs_refine (n c : Nat) {α} (p : P.Prog (Op L D) (Out L D) α) (g : G L D) (r : R L D)
    (h : RelAt n c g r) (hv : P.ValidRun (R.step c) (OkStep n c) p r) :
    (P.runR (R.step c) p r = none ∧ P.runM step p g = none) ∨
    (∃ a g' r', P.runM step p g = some (a, g') ∧ P.runR (R.step c) p r = some (a, r') ∧ RelAt n c g' r') :=
  prog_refines n c p g r h hv

def demo : List (Op Nat Nat) := [.add 1, .nextId, .add 0, .bind 0 1 0, .bind 0 1 1, .kids 0, .nextId, .keys]
example : validB 2 3 (R.empty : R Nat Nat) demo = true ∧ validB 16 256 (R.empty : R Nat Nat) demo = true := by decide +kernel

end Props.C19
