import Pure
import Codec.Utf8All
/-! # C15 — Hex is its byte string, whatever its representation

`Hx.Hex` has the two public variants; `WF` = the inline array has 8 cells and the length does not exceed 8, the
padding cells are arbitrary. `none` = panic. `sliceRange`/`sliceIncl` are Rust's slice-index semantics on the byte
string (`start ≤ end ≤ len`; an inclusive end of `usize::MAX` overflows). -/
namespace Props.C15
open Hx

/-- `len` is the length of the byte string -/
theorem len_eq (h : Hex) (w : h.WF) : h.toBytes.length = h.len := bytes_len h w

/-- `from_slice`/`from_vec` hold exactly the bytes they were built from, in a well-formed representation -/
theorem built_from (s : List UInt8) : (Hex.ofBytes s).toBytes = s ∧ (Hex.ofBytes s).WF := ⟨ofBytes_bytes s, ofBytes_wf s⟩

/-- `Hex::empty()` holds no bytes, in a well-formed representation -/
theorem empty_bytes : (default : Hex).toBytes = [] ∧ (default : Hex).WF := by
  refine ⟨rfl, ?_⟩
  simp [default, Hex.WF]

theorem index_eq (h : Hex) (w : h.WF) (i : Nat) : h.index i = h.toBytes[i]? := Hx.index_eq h w i
theorem range_eq (h : Hex) (w : h.WF) (s e : Nat) : h.range s e = sliceRange h.toBytes s e := Hx.range_eq h w s e
theorem rangeFrom_eq (h : Hex) (w : h.WF) (s : Nat) : h.rangeFrom s = sliceRange h.toBytes s h.toBytes.length := Hx.rangeFrom_eq h w s
theorem rangeFull_eq (h : Hex) (w : h.WF) : h.rangeFull = some h.toBytes := Hx.rangeFull_eq h w
theorem rangeIncl_eq (h : Hex) (w : h.WF) (s e : Nat) : h.rangeIncl s e = sliceIncl h.toBytes s e := Hx.rangeIncl_eq h w s e
/-- … also for a `RangeInclusive` value that was iterated to its end (flag `exhausted`: the empty slice at `e + 1`) -/
theorem rangeInclX_eq (h : Hex) (w : h.WF) (e : Nat) : h.rangeInclX e = sliceInclX h.toBytes e := Hx.rangeInclX_eq h w e
theorem rangeTo_eq (h : Hex) (w : h.WF) (e : Nat) : h.rangeTo e = sliceRange h.toBytes 0 e := Hx.rangeTo_eq h w e
theorem rangeToIncl_eq (h : Hex) (w : h.WF) (e : Nat) : h.rangeToIncl e = sliceIncl h.toBytes 0 e := Hx.rangeToIncl_eq h w e

/-- **representation independence**: two well-formed values with the same bytes answer every accessor alike
    (`byte_at`, `tail`, `print`, `==` are functions of `toBytes` by definition) -/
theorem representation_independent (h1 h2 : Hex) (w1 : h1.WF) (w2 : h2.WF) (e : h1.toBytes = h2.toBytes) :
    h1.len = h2.len ∧ (∀ i, h1.index i = h2.index i) ∧ (∀ s t, h1.range s t = h2.range s t) ∧
    (∀ s, h1.rangeFrom s = h2.rangeFrom s) ∧ h1.rangeFull = h2.rangeFull ∧ (∀ s t, h1.rangeIncl s t = h2.rangeIncl s t) ∧
    (∀ t, h1.rangeTo t = h2.rangeTo t) ∧ (∀ t, h1.rangeToIncl t = h2.rangeToIncl t) ∧
    (∀ i, h1.byteAt i = h2.byteAt i) ∧ (∀ k, (h1.tail k).map Hex.toBytes = (h2.tail k).map Hex.toBytes) := by
  refine ⟨?_, ?_, ?_, ?_, ?_, ?_, ?_, ?_, ?_, ?_⟩
  · rw [← bytes_len h1 w1, ← bytes_len h2 w2, e]
  · intro i; rw [Hx.index_eq h1 w1, Hx.index_eq h2 w2, e]
  · intro s t; rw [Hx.range_eq h1 w1, Hx.range_eq h2 w2, e]
  · intro s; rw [Hx.rangeFrom_eq h1 w1, Hx.rangeFrom_eq h2 w2, e]
  · rw [Hx.rangeFull_eq h1 w1, Hx.rangeFull_eq h2 w2, e]
  · intro s t; rw [Hx.rangeIncl_eq h1 w1, Hx.rangeIncl_eq h2 w2, e]
  · intro t; rw [Hx.rangeTo_eq h1 w1, Hx.rangeTo_eq h2 w2, e]
  · intro t; rw [Hx.rangeToIncl_eq h1 w1, Hx.rangeToIncl_eq h2 w2, e]
  · intro i; simp [Hex.byteAt, e]
  · intro k; simp [Hex.tail, e]

/-- `tail` holds exactly the tail of the byte string and panics exactly when the slice would -/
theorem tail_eq (h : Hex) (k : Nat) : (h.tail k).map Hex.toBytes = sliceRange h.toBytes k h.toBytes.length := by
  simp only [Hex.tail, Option.map_map]
  cases sliceRange h.toBytes k h.toBytes.length with
  | none => rfl
  | some bs => simp [ofBytes_bytes]

/-- `from_str(print(h))` gives back the bytes, for every byte string (including the empty one, printed `--`) -/
theorem fromStr_print (bs : List UInt8) : HD.fromStr (HD.print bs) = some bs := HD.fromStr_print bs

/-- the i64/f64 conversions on the 64-bit pattern: `From` always writes eight bytes, the conversion back is the
    bit-exact inverse, it fails for every other length, and eight bytes survive conversion to a number and back -/
theorem ofBits_length (n : Nat) : (HI.ofBits n).length = 8 := HI.ofBits_length n
theorem toBits_ofBits (n : Nat) (h : n < 2 ^ 64) : HI.toBits (HI.ofBits n) = some n := HI.toBits_ofBits n h
theorem toBits_wrong_length (bytes : List UInt8) (h : bytes.length ≠ 8) : HI.toBits bytes = none := HI.toBits_wrong_length bytes h
theorem ofBits_toBits (bytes : List UInt8) (n : Nat) (h : HI.toBits bytes = some n) : HI.ofBits n = bytes ∧ n < 2 ^ 64 :=
  HI.ofBits_toBits bytes n h

/-! non-vacuity: an inline value with non-zero padding and its heap twin -/
example : (Hex.inline [1, 2, 3, 0xAA, 0xBB, 0xCC, 0xDD, 0xEE] 3).WF ∧
    (Hex.inline [1, 2, 3, 0xAA, 0xBB, 0xCC, 0xDD, 0xEE] 3).toBytes = (Hex.vector [1, 2, 3]).toBytes := by
  simp [Hex.WF, Hex.toBytes]

/-- the narrower `From` conversions (`i8`, `i16`, `i32`, `f32`): `w` big-endian bytes from which the pattern can be
    read back; at eight bytes this is the conversion above -/
theorem ofBitsW_length (w n : Nat) : (HI.ofBitsW w n).length = w := HI.ofBitsW_length w n
theorem val_ofBitsW (w n : Nat) (h : n < 256 ^ w) : HI.valLE (HI.ofBitsW w n).reverse = n := HI.val_ofBitsW w n h
theorem ofBitsW_eight (n : Nat) : HI.ofBitsW 8 n = HI.ofBits n := rfl

/-- `From<bool>` / `to_bool`: inverse of each other; `to_bool` panics exactly on the empty byte string -/
theorem toBool_ofBool (b : Bool) : HI.toBool (HI.ofBool b) = some b := HI.toBool_ofBool b
theorem toBool_panics_iff (bytes : List UInt8) : HI.toBool bytes = none ↔ bytes = [] := HI.toBool_panics_iff bytes

/-- `from_str_bytes` / `to_utf8`: the text comes back, and `to_utf8` succeeds exactly on the encodings of texts -/
theorem utf8_text_roundtrip (cs : List Char) : U8.decAll (U8.encAll cs) = some cs := U8.decAll_encAll cs
theorem utf8_exact (w : List UInt8) (cs : List Char) (h : U8.decAll w = some cs) : U8.encAll cs = w := U8.encAll_of_decAll w cs h

example : U8.decAll [0xC0, 0x80] = none ∧ U8.decAll [0xED, 0xA0, 0x80] = none ∧ U8.decAll [0xCE, 0xB1] = some ['α'] := by
  decide +kernel


end Props.C15
