import Core
import Algo
set_option linter.unusedSectionVars false
/-! # C13 — slice() returns exactly the reachable sub-graph -/
namespace Props.C13
open Sodg
variable {L D : Type} [DecidableEq L] [Inhabited D]

/-- **the closure is the reachable set, whatever the drain order of the hash set** -/
theorem done_is_reachable (E : Sl.Edges L) (p : Sl.Pred L) (v : Nat) (perm : List Nat → List Nat)
    (hperm : ∀ l x, x ∈ perm l ↔ x ∈ l) (fuel : Nat) (res : List Nat)
    (h : Sl.loop E p perm fuel [v] [] = some res) : ∀ u, u ∈ res ↔ Sl.Reach E p v u :=
  Sl.slice_done_eq_reach E p v perm hperm fuel res h

/-- **the call terminates on every reachable graph, cyclic or not**: the closure never runs out of fuel -/
theorem terminates {n c : Nat} {g : G L D} {r : R L D} {P : List (Nat × Nat)} (h : Reach n c g r P)
    (v : Nat) (hv : v < cap g) (p : Nat → Nat → L → Bool) : (sliceDone g v p).isSome :=
  Sl.slice_terminates (fun u => edg g u) p id (fun _ _ => Iff.rfl) (cap g) v hv h.edgesBelow

/-- **exactly the reachable sub-graph**: for every reachable source graph, if `slice_some(v, p)` returns `g'` and
    the rebuild stays within the limits (true whenever at most 14 vertices are kept), then the present vertices of
    `g'` are exactly the vertices reachable from `v` along accepted edges, under their original ids, and every kept
    vertex has exactly the source's edges into kept vertices, in source order — so every accepted edge between
    kept vertices is there and no edge the source lacks. The source is an argument and is not changed. -/
theorem slice_exact {n c : Nat} {g : G L D} {r : R L D} {P : List (Nat × Nat)} (h : Reach n c g r P)
    (g' : G L D) (v : Nat) (p : Nat → Nat → L → Bool) (done : List Nat) (hd : sliceDone g v p = some done)
    (hs : sliceSome g v p = some g')
    (hvalid : Valid g.n (cap g) (R.empty : R L D)
      (rebuildOps (fun u => edg g u) (fun u => decide (u ∈ done)) (keptIds g done))) :
    (∀ u, u ∈ keys g' ↔ Sl.Reach (fun u => edg g u) p v u) ∧
    (∀ x ∈ keys g', edg g' x = (edg g x).filter (fun e => decide (e.2 ∈ done))) ∧
    (∀ u, u ∈ done ↔ Sl.Reach (fun u => edg g u) p v u) :=
  Sodg.slice_exact g g' v p h.edgesBelow ⟨h.edgesOK.1, h.edgesOK.2⟩ done hd hs hvalid

/-- **C13 at its own quantifier (at most 14 kept vertices)**: for every reachable source graph, every start vertex
    below the capacity and every predicate, the closure terminates; if it keeps at most 14 ids, every call of the
    rebuild is within the limits (`Sodg.valid_rebuild`), so `slice_some` does not panic and returns a graph whose
    present vertices are exactly the reachable ones and whose edges are exactly the source's edges between kept
    vertices — no validity hypothesis left -/
theorem slice_small {n c : Nat} {g : G L D} {r : R L D} {P : List (Nat × Nat)} (h : Reach n c g r P)
    (v : Nat) (hv : v < cap g) (p : Nat → Nat → L → Bool) :
    ∃ done, sliceDone g v p = some done ∧ (∀ u, u ∈ done ↔ Sl.Reach (fun u => edg g u) p v u) ∧
      ((keptIds g done).length ≤ 14 →
        ∃ g', sliceSome g v p = some g' ∧
          (∀ u, u ∈ keys g' ↔ Sl.Reach (fun u => edg g u) p v u) ∧
          (∀ x ∈ keys g', edg g' x = (edg g x).filter (fun e => decide (e.2 ∈ done)))) := by
  have ht := terminates h v hv p
  cases hd : sliceDone g v p with
  | none => rw [hd] at ht; cases ht
  | some done =>
    refine ⟨done, rfl, ?_, fun h14 => Sodg.slice_small h v hv p done hd h14⟩
    exact Sl.slice_done_eq_reach (fun u => edg g u) p v id (fun _ _ => Iff.rfl) (cap g + 1) done hd

/-- the rebuild, as a list of calls on a fresh graph, refines the reference: no panic within the limits, and the
    result is related to the reference after the same calls (so C01–C03 apply to the slice afterwards) -/
theorem rebuild_refines (ops : List (Op L D)) (g : G L D) (r : R L D) (hr : Rel g r) (hv : Valid g.n (cap g) r ops) :
    ∃ g', applyOps g ops = some g' ∧ Rel g' (R.exec (cap g) r ops) ∧ cap g' = cap g ∧ g'.n = g.n :=
  applyOps_rel ops g r hr hv

/-! non-vacuity: a three-vertex cycle with a rejected edge -/
def demo : List (Op Nat Nat) := [.add 0, .add 1, .add 2, .bind 0 1 0, .bind 1 2 0, .bind 2 0 0, .bind 0 2 1]
example : validB 2 4 (R.empty : R Nat Nat) demo = true := by decide +kernel
example : ((applyOps (empty 2 4 : G Nat Nat) demo).bind (fun g => sliceSome g 0 (fun a b _ => !(a == 0 && b == 2)))).map keys
    = some [0, 1, 2] := by decide +kernel

/-! ### a source graph with removed slots (`join()` inside a non-tree `merge`, Core/Holes.lean)

C13 quantifies over *every reachable graph*. `slice_some` reads the slot of every vertex it reaches with
`vertices.get(v).unwrap()`, and rebuilds over `vertices.iter()`, which skips removed slots, into a store of the same capacity. -/

/-- when no removed slot is among the vertices reached from `v` — in particular whenever "everything reachable from `v` is
    present", C13's own precondition — the slice is the slice of the underlying tables: all statements above apply -/
theorem slice_ignores_unreached_removed_slots (x : GX L D) (v : Nat) (p : Nat → Nat → L → Bool) (hv : x.acc v = true)
    (done : List Nat) (hd : sliceDone x.g v p = some done) (hh : ∀ u ∈ done, u ∉ x.holes) :
    sliceSomeX x v p = sliceSome x.g v p := sliceSomeX_eq x v p hv done hd hh

/-- a removed slot among them is a panic, not a wrong answer -/
theorem slice_reaching_a_removed_slot_panics (x : GX L D) (v : Nat) (p : Nat → Nat → L → Bool) (done : List Nat)
    (hd : sliceDone x.g v p = some done) (u : Nat) (hu : u ∈ done) (hh : u ∈ x.holes) : sliceSomeX x v p = none :=
  sliceSomeX_panics x v p done hd u hu hh

theorem slice_without_removed_slots (g : G L D) (v : Nat) (p : Nat → Nat → L → Bool) :
    sliceSomeX ⟨g, []⟩ v p = sliceSome g v p := sliceSomeX_nohole g v p

end Props.C13
