import Core
set_option linter.unusedSectionVars false
/-! # C06 — sustained operation: collection gives group capacity back -/
namespace Props.C06
open Sodg
variable {L D : Type} [DecidableEq L] [Inhabited D]

/-- Theorem A has no bound on the length of the history: however many groups lived and died before, a valid
    call completes and answers as the reference, whose groups are never "used up" -/
theorem sustained (n c : Nat) (ops : List (Op L D)) (hv : Valid n c (R.empty : R L D) ops) :
    run (empty n c : G L D) ops = some (R.run c R.empty ops) := theoremA_empty n c ops hv

/-- whenever fewer than 14 groups are alive, binding two present, distinct, ungrouped vertices (under a label
    that fits) is a valid call: it completes on every reachable state, whatever happened before -/
theorem bind_valid_below_14 (n c : Nat) (r : R L D) (v1 v2 : Nat) (a : L) (h1 : v1 ∈ r.ids) (h2 : v2 ∈ r.ids)
    (hne : v1 ≠ v2) (g1 : r.grp v1 = none) (g2 : r.grp v2 = none) (hg : r.groups.length < 14)
    (hn : (upsert (r.edg v1) a v2).length ≤ n) : OkStep n c r (.bind v1 v2 a) :=
  ⟨⟨h1, h2, hne, fun _ _ => hg, fun _ k h => (by rw [g2] at h; cases h), fun _ k h => (by rw [g1] at h; cases h)⟩, hn⟩

/-- ... and it forms a group of exactly these two, which is collectable: reading the last unread datum of a
    group removes all its members (`Props.C02.last_read_collects`) -/
theorem group_formed (r : R L D) (v1 v2 : Nat) (a : L) (g1 : r.grp v1 = none) (g2 : r.grp v2 = none) :
    (r.bind v1 v2 a).grp v1 = some r.fresh ∧ (r.bind v1 v2 a).grp v2 = some r.fresh := by
  rw [R.grp_bind]; simp only [g1, g2, upd_get]
  exact ⟨by split <;> rfl, by simp⟩

/-- the slot-recycling fact on the model side: in every state related to the reference with fewer than 14 live
    groups, some slot among 2..15 is empty and will be found by the search -/
theorem free_slot_exists (g : G L D) (r : R L D) (h : Rel g r) (hg : r.groups.length < 14) :
    ∃ b, firstEmpty g = some b ∧ 2 ≤ b ∧ b < 16 ∧ mem g b = [] := free_slot g r h hg

end Props.C06
