import Core
set_option linter.unusedSectionVars false
/-! # C05 — next_id() is fresh and never repeats -/
namespace Props.C05
open Sodg
variable {L D : Type} [DecidableEq L] [Inhabited D]

/-- the id returned is below the capacity, absent at that moment, at or above the allocator position, and the
    position moves past it; nothing else changes -/
theorem next_id_spec (r r' : R L D) (c id : Nat) (h : r.nextId c = some (r', id)) :
    id < c ∧ id ∉ r.ids ∧ r.pos ≤ id ∧ id < r'.pos ∧ r.pos ≤ r'.pos ∧ r'.ids = r.ids := R.nextId_spec r r' c id h

/-- no call ever moves the allocator position backwards (a clone copies it) -/
theorem position_monotone (c : Nat) (r : R L D) (op : Op L D) : r.pos ≤ (R.step c r op).1.pos := R.pos_mono c r op

/-- **never repeats**: along any history, from any state, the ids returned by `next_id` are pairwise distinct -/
theorem never_repeats (c : Nat) (ops : List (Op L D)) (r : R L D) : (returned (R.run c r ops)).Nodup :=
  R.returned_nodup c ops r

/-- ... and every one of them is at or above the position the history started from; a clone starts from the
    position of the original, so its ids differ from all ids the original returned before the clone -/
theorem above_start (c : Nat) (ops : List (Op L D)) (r : R L D) : ∀ i ∈ returned (R.run c r ops), r.pos ≤ i :=
  R.returned_ge c ops r

/-- the model returns what the reference returns (valid histories, any length) -/
theorem model_returns_reference (n c : Nat) (ops : List (Op L D)) (hv : Valid n c (R.empty : R L D) ops) :
    run (empty n c : G L D) ops = some (R.run c R.empty ops) := theoremA_empty n c ops hv

/-- `merge` and script variables obtain their ids by `next_id` inside a program over the API, which refines -/
theorem programs_refine (n c : Nat) {α} (p : P.Prog (Op L D) (Out L D) α) (g : G L D) (r : R L D)
    (h : RelAt n c g r) (hv : P.ValidRun (R.step c) (OkStep n c) p r) :
    (P.runR (R.step c) p r = none ∧ P.runM step p g = none) ∨
    (∃ a g' r', P.runM step p g = some (a, g') ∧ P.runR (R.step c) p r = some (a, r') ∧ RelAt n c g' r') :=
  prog_refines n c p g r h hv

def demo : List (Op Nat Nat) :=
  [.add 3, .nextId, .add 0, .nextId, .add 1, .bind 0 1 0, .put 1 4, .data 1, .nextId, .add 0, .nextId]
example : validB 1 6 (R.empty : R Nat Nat) demo = true := by decide +kernel
example : (run (empty 1 6 : G Nat Nat) demo).map returned = some [0, 1, 2, 4] := by decide +kernel

/-! ### graphs with slots removed by `join()` (Core/Holes.lean, Core/HolesAlloc.lean), every call sequence -/

/-- the id `next_id()` returns on such a graph is below the capacity, is not a removed slot (so `add` can create it), is absent,
    is not listed by `keys()`, and the allocator moves just past it -/
theorem next_id_with_removed_slots (x x' : GX L D) (i : Nat) (h : nextIdX x = some (x', i)) :
    i < cap x.g ∧ i ∉ x.holes ∧ tag x.g i = 0 ∧ x.g.next ≤ i ∧ i ∉ keysX x ∧ x.acc i = true ∧
    x'.holes = x.holes ∧ x'.g.next = i + 1 ∧ x.g.next ≤ x'.g.next := nextIdX_spec x x' i h

/-- and it is never returned again, whatever is called in between — calls outside the limits, panicking calls and `join`
    included: every later id is strictly larger -/
theorem never_again_with_removed_slots (x x1 x2 x3 : GX L D) (i j : Nat) (ops : List (OpX L D))
    (h1 : nextIdX x = some (x1, i)) (hr : (runX x1 ops).1 = x2) (h2 : nextIdX x2 = some (x3, j)) : i < j :=
  nextIdX_never_again x x1 x2 x3 i j ops h1 hr h2

end Props.C05
