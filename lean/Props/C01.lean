import Core
set_option linter.unusedSectionVars false
/-! # C01 — GC safety: nothing is collected early, collaterally, or by a non-reading call

Statements only; the lemmas live in `Core/`. `Reach n c g r P` = "after some valid history of any length on a
graph created by `empty(c)` with edge capacity `n`, the model is in state `g`, the reference in state `r`, and `P`
is the list of the bind pairs between current incarnations of vertices". The theorems hold for every `n`, `c`,
label type and datum type. -/
namespace Props.C01
open Sodg
variable {L D : Type} [DecidableEq L] [Inhabited D]

/-- **C01, full statement, per call of any valid history.** If a vertex `w` that was present before a call is
    absent after it, then the call is a `data v` that reads a datum put and not yet read (`r.unr v`), `w` is
    linked to `v` through recorded bind pairs between alive vertices, `w` holds no unread datum (unless it is the
    vertex read), and `w` was an endpoint of a bind. In particular no other call removes a vertex, and a vertex
    that was never an endpoint of a bind is never removed. -/
theorem safety {n c : Nat} {g : G L D} {r : R L D} {P : List (Nat × Nat)} (h : Reach n c g r P)
    (op : Op L D) (ok : OkStep n c r op) (g' : G L D) (o : Out L D) (hs : step g op = some (g', o))
    (w : Nat) (hw : w ∈ keys g) (hgone : w ∉ keys g') :
    ∃ v, op = .data v ∧ r.unr v = true ∧ Conn P (fun x => x ∈ r.ids) v w ∧ (w ≠ v → r.unr w = false) ∧
      (∃ p ∈ P, p.1 = w ∨ p.2 = w) := by
  obtain ⟨g'', hs', hreach⟩ := h.next op ok
  rw [hs] at hs'
  have e : g' = g'' := by cases hs'; rfl
  subst e
  have hw0 : w ∈ r.ids := (h.keys.2 w).1 hw
  have hg0 : w ∉ (R.step c r op).1.ids := fun hm => hgone ((hreach.keys.2 w).2 hm)
  obtain ⟨_, _, _, hgi, hpi⟩ := h.inv
  cases op with
  | add v => exact absurd (R.ids_add r v w hw0) hg0
  | bind v1 v2 a => simp only [R.step, R.ids_bind] at hg0; exact absurd hw0 hg0
  | put v d => exact absurd hw0 hg0
  | kid v a => exact absurd hw0 hg0
  | kids v => exact absurd hw0 hg0
  | keys => exact absurd hw0 hg0
  | nextId =>
    have := (R.step_other c r (.nextId : Op L D) (by intro v; simp) (by intro _ _ _; simp) (by intro v; simp)).1
    rw [this] at hg0; exact absurd hw0 hg0
  | data v =>
    have hv : v ∈ r.ids := ok
    obtain ⟨hu, k, hkv, hkw, hlast⟩ := R.data_removes r v w hw0 hg0
    refine ⟨v, rfl, hu, ?_, ?_, ?_⟩
    · exact (hgi k v w ⟨hv, hkv⟩ ⟨hw0, hkw⟩).mono (fun _ hp => hp) (fun _ hx => hx.1)
    · intro hne; exact hlast w hw0 hkw hne
    · obtain ⟨y, _, _, _, hp⟩ := hpi w hw0 k hkw
      rcases hp with hp | hp
      · exact ⟨_, hp, Or.inl rfl⟩
      · exact ⟨_, hp, Or.inr rfl⟩

/-- every valid call completes on a reachable state, answers as the reference does, and leads to a reachable
    state — so `safety` applies after every single call of every valid history -/
theorem every_call {n c : Nat} {g : G L D} {r : R L D} {P : List (Nat × Nat)} (h : Reach n c g r P)
    (op : Op L D) (ok : OkStep n c r op) :
    ∃ g', step g op = some (g', (R.step c r op).2) ∧ Reach n c g' (R.step c r op).1 (pairsStep r P op) :=
  h.next op ok

/-- reads of ungrouped vertices and of members of other groups remove nothing (reference level) -/
theorem other_groups_survive (r : R L D) (v w : Nat) (hw : w ∈ r.ids) (h : r.grp w ≠ r.grp v ∨ r.grp w = none) :
    w ∈ (r.data v).ids := R.data_keeps r v w hw h

/-- empty and repeated reads change nothing at all -/
theorem repeated_read_noop (r : R L D) (v : Nat) (h : r.unr v = false) : r.data v = r := R.data_not_unread r v h

/-- client algorithms built from the public calls (`merge`, the rebuild of `slice`, script deployment) are
    programs over the API; on a state related to the reference they return what they return on the reference
    and end in a related state, so `safety` covers the calls they make -/
theorem programs_refine (n c : Nat) {α} (p : P.Prog (Op L D) (Out L D) α) (g : G L D) (r : R L D)
    (h : RelAt n c g r) (hv : P.ValidRun (R.step c) (OkStep n c) p r) :
    (P.runR (R.step c) p r = none ∧ P.runM step p g = none) ∨
    (∃ a g' r', P.runM step p g = some (a, g') ∧ P.runR (R.step c) p r = some (a, r') ∧ RelAt n c g' r') :=
  prog_refines n c p g r h hv

/-! non-vacuity: a valid history with a three-member group, two data and two reads that ends in a collection -/
def demo : List (Op Nat Nat) :=
  [.add 1, .add 2, .add 3, .add 5, .bind 1 2 0, .bind 1 3 1, .put 2 7, .put 5 9, .put 3 8, .data 2, .keys, .data 3, .keys]

example : validB 2 8 (R.empty : R Nat Nat) demo = true := by decide +kernel
example : (run (empty 2 8 : G Nat Nat) demo).map (fun os => os.filterMap (fun o => match o with | .keys ks => some ks | _ => none))
    = some [[1, 2, 3, 5], [5]] := by decide +kernel

end Props.C01
