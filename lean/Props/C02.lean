import Core
set_option linter.unusedSectionVars false
/-! # C02 — GC exactness: a group dies exactly when its last unread datum is read -/
namespace Props.C02
open Sodg
variable {L D : Type} [DecidableEq L] [Inhabited D]

/-- **Theorem A**: for every valid history, of any length, for every `N` and capacity, no call of the model
    panics and every output (alive sets, data, kids, ids) is the output of the independent reference -/
theorem exact_run (n c : Nat) (ops : List (Op L D)) (hv : Valid n c (R.empty : R L D) ops) :
    run (empty n c : G L D) ops = some (R.run c R.empty ops) := theoremA_empty n c ops hv

/-- after every call of every valid history the alive set of the model is the alive set of the reference -/
theorem alive_set {n c : Nat} {g : G L D} {r : R L D} {P : List (Nat × Nat)} (h : Reach n c g r P) :
    keys g = r.keys c ∧ ∀ v, v ∈ keys g ↔ v ∈ r.ids := h.keys

/-- within the limits no call panics, and the next state is again reachable -/
theorem no_panic {n c : Nat} {g : G L D} {r : R L D} {P : List (Nat × Nat)} (h : Reach n c g r P)
    (op : Op L D) (ok : OkStep n c r op) :
    ∃ g', step g op = some (g', (R.step c r op).2) ∧ Reach n c g' (R.step c r op).1 (pairsStep r P op) :=
  h.next op ok

/-- binding two ungrouped vertices forms a group of exactly these two -/
theorem bind_forms_group (r : R L D) (v1 v2 : Nat) (a : L) (h1 : r.grp v1 = none) (h2 : r.grp v2 = none) :
    (r.bind v1 v2 a).grp v1 = some r.fresh ∧ (r.bind v1 v2 a).grp v2 = some r.fresh ∧
      ∀ w, w ≠ v1 → w ≠ v2 → (r.bind v1 v2 a).grp w = r.grp w := by
  rw [R.grp_bind]; simp only [h1, h2, upd_get]
  refine ⟨by split <;> rfl, by simp, ?_⟩
  intro w hw1 hw2; simp [hw1, hw2]

/-- binding an ungrouped vertex with a grouped one adds it to that group and changes nobody else -/
theorem bind_joins_group (r : R L D) (v1 v2 : Nat) (a : L) (k : Nat) :
    (r.grp v1 = none → r.grp v2 = some k →
      (r.bind v1 v2 a).grp v1 = some k ∧ ∀ w, w ≠ v1 → (r.bind v1 v2 a).grp w = r.grp w) ∧
    (r.grp v1 = some k → r.grp v2 = none →
      (r.bind v1 v2 a).grp v2 = some k ∧ ∀ w, w ≠ v2 → (r.bind v1 v2 a).grp w = r.grp w) := by
  constructor
  · intro h1 h2; rw [R.grp_bind]; simp only [h1, h2, upd_get]
    exact ⟨by simp, fun w hw => by simp [hw]⟩
  · intro h1 h2; rw [R.grp_bind]; simp only [h1, h2, upd_get]
    exact ⟨by simp, fun w hw => by simp [hw]⟩

/-- binding two grouped vertices changes no group -/
theorem bind_grouped_noop (r : R L D) (v1 v2 : Nat) (a : L) (k1 k2 : Nat) (h1 : r.grp v1 = some k1)
    (h2 : r.grp v2 = some k2) : (r.bind v1 v2 a).grp = r.grp := by
  rw [R.grp_bind]; simp only [h1, h2]

/-- the read of the last unread datum of a group removes every alive member of that group and nobody else -/
theorem last_read_collects (r : R L D) (v k : Nat) (hu : r.unr v = true) (hk : r.grp v = some k)
    (hlast : ∀ x ∈ r.ids, r.grp x = some k → x ≠ v → r.unr x = false) :
    ∀ w, w ∈ (r.data v).ids ↔ (w ∈ r.ids ∧ r.grp w ≠ some k) := R.data_collects r v k hu hk hlast

/-- until then every member stays: a read that leaves another member of the group unread removes nobody -/
theorem earlier_reads_keep (r : R L D) (v w x k : Nat) (hk : r.grp v = some k) (hx : x ∈ r.ids)
    (hgx : r.grp x = some k) (hxv : x ≠ v) (hux : r.unr x = true) (hw : w ∈ r.ids) : w ∈ (r.data v).ids := by
  apply Classical.byContradiction
  intro hgone
  obtain ⟨_, k', hk', _, hlast⟩ := R.data_removes r v w hw hgone
  have : k' = k := by rw [hk] at hk'; cases hk'; rfl
  subst this
  have := hlast x hx hgx hxv
  rw [hux] at this; cases this

/-- the executable validity predicate used by generators and monitors is the validity of the theorems -/
theorem validB_is_valid (n c : Nat) (ops : List (Op L D)) (r : R L D) : validB n c r ops = true ↔ Valid n c r ops :=
  validB_iff n c ops r

/-! non-vacuity: overwriting put, put before bind, add of a present vertex, then the last read collects -/
def demo : List (Op Nat Nat) :=
  [.add 1, .add 2, .put 2 5, .bind 1 2 0, .put 2 6, .add 2, .put 1 7, .data 2, .keys, .data 1, .keys]
example : validB 1 4 (R.empty : R Nat Nat) demo = true := by decide +kernel
example : (run (empty 1 4 : G Nat Nat) demo).map (fun os => os.filterMap (fun o => match o with | .keys ks => some ks | _ => none))
    = some [[1, 2], []] := by decide +kernel

end Props.C02
