import Core.Eqv
import Drv.Judge
import Std.Data.String.ToNat
set_option linter.unusedSectionVars false
/-! # Driver code the verdicts depend on

The generators and the monitors flatten the closure tables of the reference every 24 calls (`Drv.compactR`). The
flattened state agrees with the original below the capacity, and states that agree there are indistinguishable by
valid histories (`Core/Eqv.lean`): flattening changes no verdict.

The direct monitors of C03–C05 recompute their expectations from the raw history of calls (`Drv.Hist`). `HistRel`
says that these tables are the reference's tables; it holds initially, every call within the limits preserves it
(`histRel_step`), and under it the direct expectations are the reference's answers (`direct_C03_is_reference`,
`nextId_passes`): on a valid history the direct monitors cannot reject what the reference predicts. (Not covered: the
text layer — printing and parsing of observation lines —, the C01 component search, and the monitors of the other
operations.) -/
namespace Props.Driver
open Sodg Drv

theorem getD_ofFn {α} (c : Nat) (f : Fin c → α) (d : α) (v : Nat) (hv : v < c) : (Array.ofFn f).getD v d = f ⟨v, hv⟩ := by
  simp [Array.getD, hv]

/-- the flattened reference state agrees with the original below the capacity … -/
theorem compactR_eqv (c : Nat) (r : R) : Eqv c r (compactR c r) := by
  refine ⟨rfl, rfl, rfl, ?_, ?_, ?_, ?_⟩ <;> intro v hv <;> simp only [compactR] <;> rw [getD_ofFn c _ _ v hv]

/-- … and one valid call is valid on both, answers the same on both and leaves states that agree again … -/
theorem compactR_step (n c : Nat) (r r' : R) (h : Eqv c r r') (hb : IdsBelow c r) (op : Op) (ok : OkStep n c r op) :
    OkStep n c r' op ∧ (R.step c r op).2 = (R.step c r' op).2 ∧ Eqv c (R.step c r op).1 (R.step c r' op).1 ∧
      IdsBelow c (R.step c r op).1 :=
  ⟨(h.step hb op ok).1, (h.step hb op ok).2.1, (h.step hb op ok).2.2, hb.step op ok⟩

/-- … hence **flattening is invisible to every valid history**: same validity of every call, same outputs -/
theorem compactR_run (n c : Nat) (r : R) (hb : IdsBelow c r) (ops : List Op) (hv : Valid n c r ops) :
    Valid n c (compactR c r) ops ∧ R.run c r ops = R.run c (compactR c r) ops :=
  Eqv.run ops r (compactR c r) (compactR_eqv c r) hb hv

theorem assocGet_set {α β} [DecidableEq α] (l : List (α × β)) (k k' : α) (v : β) :
    assocGet (assocSet l k v) k' = if k' = k then some v else assocGet l k' := by
  unfold assocGet assocSet
  by_cases h : k' = k
  · subst h; simp
  · simp only [List.find?_cons, h, if_false]
    have hk : ¬ k = k' := fun e => h e.symm
    simp only [hk, decide_false]
    congr 1
    induction l with
    | nil => rfl
    | cons x xs ih =>
      simp only [List.filter_cons]
      by_cases hx : x.1 = k
      · simp only [hx, ne_eq, not_true_eq_false, decide_false, Bool.false_eq_true, if_false, List.find?_cons, hk]
        exact ih
      · simp only [ne_eq, hx, not_false_eq_true, decide_true, if_true, List.find?_cons]
        split
        · rfl
        · exact ih

theorem assocGet_filter_ne {α β} [DecidableEq α] (l : List (α × β)) (v k : α) :
    assocGet (l.filter (fun e => e.1 ≠ v)) k = if k = v then none else assocGet l k := by
  unfold assocGet
  induction l with
  | nil => simp
  | cons x xs ih =>
    simp only [List.filter_cons]
    by_cases hx : x.1 = v
    · simp only [hx, ne_eq, not_true_eq_false, decide_false, Bool.false_eq_true, if_false, List.find?_cons]
      by_cases hk : k = v
      · simp only [hk, if_true] at ih ⊢; exact ih
      · have : ¬ v = k := fun e => hk e.symm
        simp only [hk, if_false, this, decide_false] at ih ⊢; exact ih
    · simp only [ne_eq, hx, not_false_eq_true, decide_true, if_true, List.find?_cons]
      by_cases hxk : x.1 = k
      · have : ¬ k = v := by rw [← hxk]; exact hx
        simp [hxk, this]
      · simp only [hxk, decide_false]
        exact ih


/-- the tables the direct monitors recompute from the raw history are the reference's tables -/
structure HistRel (hs : Hist) (r : R) : Prop where
  edges : ∀ v ∈ r.ids, (assocGet hs.edges v).getD [] = r.edg v
  puts : ∀ v ∈ r.ids, assocGet hs.puts v = (r.dat v).map (·.toBytes)
  unread : ∀ v ∈ r.ids, v ∈ hs.unread ↔ r.unr v = true
  issued : ∀ i ∈ hs.issued, i < r.pos

theorem histRel_empty : HistRel {} (Sodg.R.empty : R) :=
  ⟨by simp [Sodg.R.empty], by simp [Sodg.R.empty], by simp [Sodg.R.empty], by simp⟩

theorem mem_keys (r : R) (c v : Nat) (hv : v < c) : v ∈ R.keys r c ↔ v ∈ r.ids := by
  simp [R.keys, hv]

theorem bind_fields (r : R) (v1 v2 : Nat) (a : Label) :
    (r.bind v1 v2 a).dat = r.dat ∧ (r.bind v1 v2 a).unr = r.unr ∧ (r.bind v1 v2 a).pos = r.pos := by
  unfold R.bind R.bindGrp R.setEdge; simp only; split <;> exact ⟨rfl, rfl, rfl⟩

theorem data_fields (r : R) (v : Nat) :
    (r.data v).edg = r.edg ∧ (r.data v).dat = r.dat ∧ (r.data v).pos = r.pos ∧ (∀ w ∈ (r.data v).ids, w ∈ r.ids) ∧
      (r.data v).unr v = false ∧ (∀ w, w ≠ v → (r.data v).unr w = r.unr w) := by
  simp only [R.data]
  split
  · split
    · exact ⟨rfl, rfl, rfl, fun _ h => h, by simp, fun w hw => by simp [upd_get, hw]⟩
    · split
      · exact ⟨rfl, rfl, rfl, fun w h => (List.mem_filter.1 h).1, by simp, fun w hw => by simp [upd_get, hw]⟩
      · exact ⟨rfl, rfl, rfl, fun _ h => h, by simp, fun w hw => by simp [upd_get, hw]⟩
  · next h => exact ⟨rfl, rfl, rfl, fun _ h => h, by simpa using h, fun _ _ => rfl⟩

/-- **one judged call keeps the monitors' history tables equal to the reference's**: after any call within the
    limits, with the alive sets the reference predicts and (for `next_id`) the id the reference returns -/
theorem histRel_step (n c : Nat) (hs : Hist) (r : R) (h : HistRel hs r) (op : Op) (ok : OkStep n c r op) (out : String)
    (hout : ∀ i, (R.step c r op).2 = .id i → out = toString i) :
    HistRel (hs.update op (R.keys r c) (R.keys (R.step c r op).1 c) out) (R.step c r op).1 := by
  cases op with
  | add v =>
    have hv : v < c := ok
    simp only [Hist.update, R.step]
    by_cases hp : v ∈ r.ids
    · rw [if_pos ((mem_keys r c v hv).2 hp), R.add_present_noop r v hp]; exact h
    · rw [if_neg (fun hk => hp ((mem_keys r c v hv).1 hk))]
      obtain ⟨a1, a2, a3, _, a5, a6⟩ := R.add_absent_blank r v hp
      refine ⟨?_, ?_, ?_, ?_⟩
      · intro w hw
        simp only [assocGet_filter_ne]
        by_cases hwv : w = v
        · subst hwv; simp [a2]
        · simp only [hwv, if_false]
          obtain ⟨i1, i2, _⟩ := a6 w hwv
          rw [i2]; exact h.edges w (i1.1 hw)
      · intro w hw
        simp only [assocGet_filter_ne]
        by_cases hwv : w = v
        · subst hwv; simp [a3]
        · simp only [hwv, if_false]
          obtain ⟨i1, _, i3, _⟩ := a6 w hwv
          rw [i3]; exact h.puts w (i1.1 hw)
      · intro w hw
        by_cases hwv : w = v
        · subst hwv; simp [a5]
        · obtain ⟨i1, _, _, _, i5⟩ := a6 w hwv
          rw [i5]
          simp only [List.mem_filter, hwv, ne_eq, not_false_eq_true, decide_true, and_true]
          exact h.unread w (i1.1 hw)
      · intro i hi
        have : (r.add v).pos = r.pos := by simp [R.add, hp]
        rw [this]; exact h.issued i hi
  | bind v1 v2 a =>
    simp only [Hist.update, R.step]
    obtain ⟨b1, b2, b3⟩ := bind_fields r v1 v2 a
    have hv1 : v1 ∈ r.ids := ok.1.p1
    refine ⟨?_, ?_, ?_, ?_⟩
    · intro w hw
      rw [R.ids_bind] at hw
      rw [edg_bind, assocGet_set]
      by_cases hwv : w = v1
      · subst hwv
        simp only [if_true, Option.getD_some, upd_same]
        rw [h.edges w hv1]; rfl
      · simp only [hwv, if_false, upd_get]
        exact h.edges w hw
    · intro w hw; rw [R.ids_bind] at hw; rw [b1]; exact h.puts w hw
    · intro w hw; rw [R.ids_bind] at hw; rw [b2]; exact h.unread w hw
    · intro i hi; rw [b3]; exact h.issued i hi
  | put v d =>
    simp only [Hist.update, R.step, R.put]
    refine ⟨h.edges, ?_, ?_, h.issued⟩
    · intro w hw
      rw [assocGet_set]
      by_cases hwv : w = v
      · subst hwv; simp
      · simp only [hwv, if_false, upd_get]; exact h.puts w hw
    · intro w hw
      by_cases hwv : w = v
      · subst hwv; simp
      · simp only [List.mem_cons, hwv, false_or, List.mem_filter, ne_eq, not_false_eq_true, decide_true, and_true, upd_get,
          if_false]
        exact h.unread w hw
  | data v =>
    simp only [Hist.update, R.step]
    obtain ⟨d1, d2, d3, d4, d5, d6⟩ := data_fields r v
    refine ⟨?_, ?_, ?_, ?_⟩
    · intro w hw; rw [d1]; exact h.edges w (d4 w hw)
    · intro w hw; rw [d2]; exact h.puts w (d4 w hw)
    · intro w hw
      by_cases hwv : w = v
      · subst hwv; simp [d5]
      · rw [d6 w hwv]
        simp only [List.mem_filter, hwv, ne_eq, not_false_eq_true, decide_true, and_true]
        exact h.unread w (d4 w hw)
    · intro i hi; rw [d3]; exact h.issued i hi
  | kid v a => exact h
  | kids v => exact h
  | keys => exact h
  | nextId =>
    simp only [Hist.update]
    cases hn : r.nextId c with
    | none =>
      have e1 : (R.step c r (.nextId : Op)).1 = r := by simp [R.step, hn]
      rw [e1]
      split
      · next i hi =>
        -- no id was returned: the payload is not a number the reference knows; nothing is recorded by the caller
        obtain ⟨j, hj1, hj2, hj3⟩ := ok
        unfold R.nextId at hn
        have : (List.range c).find? (fun v => decide (v ∉ r.ids ∧ r.pos ≤ v)) ≠ none := by
          intro hf
          have := List.find?_eq_none.1 hf j (by simp [hj1])
          simp [hj2, hj3] at this
        cases hf : (List.range c).find? (fun v => decide (v ∉ r.ids ∧ r.pos ≤ v)) with
        | none => exact absurd hf this
        | some id => rw [hf] at hn; simp at hn
      · exact h
    | some pr =>
      obtain ⟨r', i⟩ := pr
      have e1 : (R.step c r (.nextId : Op)).1 = r' := by simp [R.step, hn]
      have e2 : (R.step c r (.nextId : Op)).2 = .id i := by simp [R.step, hn]
      rw [e1]
      have ho := hout i e2
      subst ho
      have hnat : (toString i).toNat? = some i := Nat.toNat?_repr i
      rw [hnat]
      simp only
      unfold R.nextId at hn
      cases hf : (List.range c).find? (fun v => decide (v ∉ r.ids ∧ r.pos ≤ v)) with
      | none => rw [hf] at hn; cases hn
      | some id =>
        rw [hf] at hn
        simp only [Option.some.injEq, Prod.mk.injEq] at hn
        obtain ⟨hr', hid⟩ := hn
        subst hid
        have hpos : r.pos ≤ r'.pos ∧ id < r'.pos := by
          rw [← hr']; split <;> simp <;> omega
        have hrest : r'.ids = r.ids ∧ r'.edg = r.edg ∧ r'.dat = r.dat ∧ r'.unr = r.unr := by
          rw [← hr']; split <;> exact ⟨rfl, rfl, rfl, rfl⟩
        obtain ⟨q1, q2, q3, q4⟩ := hrest
        refine ⟨by rw [q1, q2]; exact h.edges, by rw [q1, q3]; exact h.puts, by rw [q1, q4]; exact h.unread, ?_⟩
        intro j hj
        simp only [List.mem_cons] at hj
        rcases hj with rfl | hj
        · exact hpos.2
        · exact Nat.lt_of_lt_of_le (h.issued j hj) hpos.1

/-- what `next_id()` returns in the reference passes the direct C05 monitor: below the capacity, absent, and never
    returned before on this graph -/
theorem nextId_passes (c : Nat) (hs : Hist) (r r' : R) (i : Nat) (h : HistRel hs r) (hn : r.nextId c = some (r', i)) :
    i < c ∧ i ∉ R.keys r c ∧ i ∉ hs.issued := by
  unfold R.nextId at hn
  cases hf : (List.range c).find? (fun v => decide (v ∉ r.ids ∧ r.pos ≤ v)) with
  | none => rw [hf] at hn; cases hn
  | some id =>
    rw [hf] at hn
    simp only [Option.some.injEq, Prod.mk.injEq] at hn
    obtain ⟨_, hid⟩ := hn
    subst hid
    have hm := List.mem_of_find?_eq_some hf
    have hp := List.find?_some hf
    simp only [List.mem_range] at hm
    simp only [decide_eq_true_eq] at hp
    refine ⟨hm, fun hk => hp.1 ((mem_keys r c id hm).1 hk), fun hi => ?_⟩
    have := h.issued id hi
    omega


/-- hence **what the direct C03 monitor expects is what the reference answers**: `kid`, `kids` and `data` of a present
    vertex, recomputed from the raw history of binds and puts, are the reference's outputs — the direct monitor and
    the comparison with the reference can never disagree on a valid history -/
theorem direct_C03_is_reference (c : Nat) (hs : Hist) (r : R) (h : HistRel hs r) (v : Nat) (hv : v ∈ r.ids) (a : Label) :
    (R.step c r (.kid v a)).2 = .kid (lookup ((assocGet hs.edges v).getD []) a) ∧
    (R.step c r (.kids v)).2 = .kids ((assocGet hs.edges v).getD []) ∧
    (match (R.step c r (.data v)).2 with
      | .data d => d.map (·.toBytes) = assocGet hs.puts v
      | _ => False) := by
  refine ⟨?_, ?_, ?_⟩
  · simp only [R.step]; rw [h.edges v hv]
  · simp only [R.step]; rw [h.edges v hv]
  · simp only [R.step]; rw [h.puts v hv]


end Props.Driver
