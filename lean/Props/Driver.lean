import Core.Eqv
import Props.C01
import Core.Linked
import Drv.Judge
import Std.Data.String.ToNat
set_option linter.unusedSectionVars false
/-! # Driver code the verdicts depend on

The generators and the monitors flatten the closure tables of the reference every 24 calls (`Drv.compactR`). The
flattened state agrees with the original below the capacity, and states that agree there are indistinguishable by
valid histories (`Core/Eqv.lean`): flattening changes no verdict.

The direct monitors of C03–C05 recompute their expectations from the raw history of calls (`Drv.Hist`). `HistRel`
says that these tables are the reference's tables; it holds initially, every call within the limits preserves it
(`histRel_step`), and under it the direct expectations are the reference's answers (`direct_C03_is_reference`,
`nextId_passes`): on a valid history the direct monitors cannot reject what the reference predicts. (Not covered: the
text layer — printing and parsing of observation lines — and the monitors of the other operations.)

The direct C01 monitor searches the component of the vertex read in its own list of bind pairs (`Drv.component`,
a saturation loop of `|pairs| + 1` rounds). `component_complete`: the search is complete (each added element puts one
more pair with both ends inside, so one of the rounds adds nothing, and then every pair is saturated).
`direct_C01_accepts`: with `Props.C01.safety`, none of the three rejections of that monitor can fire on a reachable
step. -/
namespace Props.Driver
open Sodg Drv

theorem getD_ofFn {α} (c : Nat) (f : Fin c → α) (d : α) (v : Nat) (hv : v < c) : (Array.ofFn f).getD v d = f ⟨v, hv⟩ := by
  simp [Array.getD, hv]

/-- the flattened reference state agrees with the original below the capacity … -/
theorem compactR_eqv (c : Nat) (r : R) : Eqv c r (compactR c r) := by
  refine ⟨rfl, rfl, rfl, ?_, ?_, ?_, ?_⟩ <;> intro v hv <;> simp only [compactR] <;> rw [getD_ofFn c _ _ v hv]

/-- … and one valid call is valid on both, answers the same on both and leaves states that agree again … -/
theorem compactR_step (n c : Nat) (r r' : R) (h : Eqv c r r') (hb : IdsBelow c r) (op : Op) (ok : OkStep n c r op) :
    OkStep n c r' op ∧ (R.step c r op).2 = (R.step c r' op).2 ∧ Eqv c (R.step c r op).1 (R.step c r' op).1 ∧
      IdsBelow c (R.step c r op).1 :=
  ⟨(h.step hb op ok).1, (h.step hb op ok).2.1, (h.step hb op ok).2.2, hb.step op ok⟩

/-- … hence **flattening is invisible to every valid history**: same validity of every call, same outputs -/
theorem compactR_run (n c : Nat) (r : R) (hb : IdsBelow c r) (ops : List Op) (hv : Valid n c r ops) :
    Valid n c (compactR c r) ops ∧ R.run c r ops = R.run c (compactR c r) ops :=
  Eqv.run ops r (compactR c r) (compactR_eqv c r) hb hv

theorem assocGet_set {α β} [DecidableEq α] (l : List (α × β)) (k k' : α) (v : β) :
    assocGet (assocSet l k v) k' = if k' = k then some v else assocGet l k' := by
  unfold assocGet assocSet
  by_cases h : k' = k
  · subst h; simp
  · simp only [List.find?_cons, h, if_false]
    have hk : ¬ k = k' := fun e => h e.symm
    simp only [hk, decide_false]
    congr 1
    induction l with
    | nil => rfl
    | cons x xs ih =>
      simp only [List.filter_cons]
      by_cases hx : x.1 = k
      · simp only [hx, ne_eq, not_true_eq_false, decide_false, Bool.false_eq_true, if_false, List.find?_cons, hk]
        exact ih
      · simp only [ne_eq, hx, not_false_eq_true, decide_true, if_true, List.find?_cons]
        split
        · rfl
        · exact ih

theorem assocGet_filter_ne {α β} [DecidableEq α] (l : List (α × β)) (v k : α) :
    assocGet (l.filter (fun e => e.1 ≠ v)) k = if k = v then none else assocGet l k := by
  unfold assocGet
  induction l with
  | nil => simp
  | cons x xs ih =>
    simp only [List.filter_cons]
    by_cases hx : x.1 = v
    · simp only [hx, ne_eq, not_true_eq_false, decide_false, Bool.false_eq_true, if_false, List.find?_cons]
      by_cases hk : k = v
      · simp only [hk, if_true] at ih ⊢; exact ih
      · have : ¬ v = k := fun e => hk e.symm
        simp only [hk, if_false, this, decide_false] at ih ⊢; exact ih
    · simp only [ne_eq, hx, not_false_eq_true, decide_true, if_true, List.find?_cons]
      by_cases hxk : x.1 = k
      · have : ¬ k = v := by rw [← hxk]; exact hx
        simp [hxk, this]
      · simp only [hxk, decide_false]
        exact ih


/-- the tables the direct monitors recompute from the raw history are the reference's tables -/
structure HistRel (hs : Hist) (r : R) : Prop where
  edges : ∀ v ∈ r.ids, (assocGet hs.edges v).getD [] = r.edg v
  puts : ∀ v ∈ r.ids, assocGet hs.puts v = (r.dat v).map (·.toBytes)
  unread : ∀ v ∈ r.ids, v ∈ hs.unread ↔ r.unr v = true
  issued : ∀ i ∈ hs.issued, i < r.pos

theorem histRel_empty : HistRel {} (Sodg.R.empty : R) :=
  ⟨by simp [Sodg.R.empty], by simp [Sodg.R.empty], by simp [Sodg.R.empty], by simp⟩

theorem mem_keys (r : R) (c v : Nat) (hv : v < c) : v ∈ R.keys r c ↔ v ∈ r.ids := by
  simp [R.keys, hv]

theorem bind_fields (r : R) (v1 v2 : Nat) (a : Label) :
    (r.bind v1 v2 a).dat = r.dat ∧ (r.bind v1 v2 a).unr = r.unr ∧ (r.bind v1 v2 a).pos = r.pos := by
  unfold R.bind R.bindGrp R.setEdge; simp only; split <;> exact ⟨rfl, rfl, rfl⟩

theorem data_fields (r : R) (v : Nat) :
    (r.data v).edg = r.edg ∧ (r.data v).dat = r.dat ∧ (r.data v).pos = r.pos ∧ (∀ w ∈ (r.data v).ids, w ∈ r.ids) ∧
      (r.data v).unr v = false ∧ (∀ w, w ≠ v → (r.data v).unr w = r.unr w) := by
  simp only [R.data]
  split
  · split
    · exact ⟨rfl, rfl, rfl, fun _ h => h, by simp, fun w hw => by simp [upd_get, hw]⟩
    · split
      · exact ⟨rfl, rfl, rfl, fun w h => (List.mem_filter.1 h).1, by simp, fun w hw => by simp [upd_get, hw]⟩
      · exact ⟨rfl, rfl, rfl, fun _ h => h, by simp, fun w hw => by simp [upd_get, hw]⟩
  · next h => exact ⟨rfl, rfl, rfl, fun _ h => h, by simpa using h, fun _ _ => rfl⟩

/-- **one judged call keeps the monitors' history tables equal to the reference's**: after any call within the
    limits, with the alive sets the reference predicts and (for `next_id`) the id the reference returns -/
theorem histRel_step (n c : Nat) (hs : Hist) (r : R) (h : HistRel hs r) (op : Op) (ok : OkStep n c r op) (out : String)
    (hout : ∀ i, (R.step c r op).2 = .id i → out = toString i) :
    HistRel (hs.update op (R.keys r c) (R.keys (R.step c r op).1 c) out) (R.step c r op).1 := by
  cases op with
  | add v =>
    have hv : v < c := ok
    simp only [Hist.update, R.step]
    by_cases hp : v ∈ r.ids
    · rw [if_pos ((mem_keys r c v hv).2 hp), R.add_present_noop r v hp]; exact h
    · rw [if_neg (fun hk => hp ((mem_keys r c v hv).1 hk))]
      obtain ⟨a1, a2, a3, _, a5, a6⟩ := R.add_absent_blank r v hp
      refine ⟨?_, ?_, ?_, ?_⟩
      · intro w hw
        simp only [assocGet_filter_ne]
        by_cases hwv : w = v
        · subst hwv; simp [a2]
        · simp only [hwv, if_false]
          obtain ⟨i1, i2, _⟩ := a6 w hwv
          rw [i2]; exact h.edges w (i1.1 hw)
      · intro w hw
        simp only [assocGet_filter_ne]
        by_cases hwv : w = v
        · subst hwv; simp [a3]
        · simp only [hwv, if_false]
          obtain ⟨i1, _, i3, _⟩ := a6 w hwv
          rw [i3]; exact h.puts w (i1.1 hw)
      · intro w hw
        by_cases hwv : w = v
        · subst hwv; simp [a5]
        · obtain ⟨i1, _, _, _, i5⟩ := a6 w hwv
          rw [i5]
          simp only [List.mem_filter, hwv, ne_eq, not_false_eq_true, decide_true, and_true]
          exact h.unread w (i1.1 hw)
      · intro i hi
        have : (r.add v).pos = r.pos := by simp [R.add, hp]
        rw [this]; exact h.issued i hi
  | bind v1 v2 a =>
    simp only [Hist.update, R.step]
    obtain ⟨b1, b2, b3⟩ := bind_fields r v1 v2 a
    have hv1 : v1 ∈ r.ids := ok.1.p1
    refine ⟨?_, ?_, ?_, ?_⟩
    · intro w hw
      rw [R.ids_bind] at hw
      rw [edg_bind, assocGet_set]
      by_cases hwv : w = v1
      · subst hwv
        simp only [if_true, Option.getD_some, upd_same]
        rw [h.edges w hv1]; rfl
      · simp only [hwv, if_false, upd_get]
        exact h.edges w hw
    · intro w hw; rw [R.ids_bind] at hw; rw [b1]; exact h.puts w hw
    · intro w hw; rw [R.ids_bind] at hw; rw [b2]; exact h.unread w hw
    · intro i hi; rw [b3]; exact h.issued i hi
  | put v d =>
    simp only [Hist.update, R.step, R.put]
    refine ⟨h.edges, ?_, ?_, h.issued⟩
    · intro w hw
      rw [assocGet_set]
      by_cases hwv : w = v
      · subst hwv; simp
      · simp only [hwv, if_false, upd_get]; exact h.puts w hw
    · intro w hw
      by_cases hwv : w = v
      · subst hwv; simp
      · simp only [List.mem_cons, hwv, false_or, List.mem_filter, ne_eq, not_false_eq_true, decide_true, and_true, upd_get,
          if_false]
        exact h.unread w hw
  | data v =>
    simp only [Hist.update, R.step]
    obtain ⟨d1, d2, d3, d4, d5, d6⟩ := data_fields r v
    refine ⟨?_, ?_, ?_, ?_⟩
    · intro w hw; rw [d1]; exact h.edges w (d4 w hw)
    · intro w hw; rw [d2]; exact h.puts w (d4 w hw)
    · intro w hw
      by_cases hwv : w = v
      · subst hwv; simp [d5]
      · rw [d6 w hwv]
        simp only [List.mem_filter, hwv, ne_eq, not_false_eq_true, decide_true, and_true]
        exact h.unread w (d4 w hw)
    · intro i hi; rw [d3]; exact h.issued i hi
  | kid v a => exact h
  | kids v => exact h
  | keys => exact h
  | nextId =>
    simp only [Hist.update]
    cases hn : r.nextId c with
    | none =>
      have e1 : (R.step c r (.nextId : Op)).1 = r := by simp [R.step, hn]
      rw [e1]
      split
      · next i hi =>
        -- no id was returned: the payload is not a number the reference knows; nothing is recorded by the caller
        obtain ⟨j, hj1, hj2, hj3⟩ := ok
        unfold R.nextId at hn
        have : (List.range c).find? (fun v => decide (v ∉ r.ids ∧ r.pos ≤ v)) ≠ none := by
          intro hf
          have := List.find?_eq_none.1 hf j (by simp [hj1])
          simp [hj2, hj3] at this
        cases hf : (List.range c).find? (fun v => decide (v ∉ r.ids ∧ r.pos ≤ v)) with
        | none => exact absurd hf this
        | some id => rw [hf] at hn; simp at hn
      · exact h
    | some pr =>
      obtain ⟨r', i⟩ := pr
      have e1 : (R.step c r (.nextId : Op)).1 = r' := by simp [R.step, hn]
      have e2 : (R.step c r (.nextId : Op)).2 = .id i := by simp [R.step, hn]
      rw [e1]
      have ho := hout i e2
      subst ho
      have hnat : (toString i).toNat? = some i := Nat.toNat?_repr i
      rw [hnat]
      simp only
      unfold R.nextId at hn
      cases hf : (List.range c).find? (fun v => decide (v ∉ r.ids ∧ r.pos ≤ v)) with
      | none => rw [hf] at hn; cases hn
      | some id =>
        rw [hf] at hn
        simp only [Option.some.injEq, Prod.mk.injEq] at hn
        obtain ⟨hr', hid⟩ := hn
        subst hid
        have hpos : r.pos ≤ r'.pos ∧ id < r'.pos := by
          rw [← hr']; split <;> simp <;> omega
        have hrest : r'.ids = r.ids ∧ r'.edg = r.edg ∧ r'.dat = r.dat ∧ r'.unr = r.unr := by
          rw [← hr']; split <;> exact ⟨rfl, rfl, rfl, rfl⟩
        obtain ⟨q1, q2, q3, q4⟩ := hrest
        refine ⟨by rw [q1, q2]; exact h.edges, by rw [q1, q3]; exact h.puts, by rw [q1, q4]; exact h.unread, ?_⟩
        intro j hj
        simp only [List.mem_cons] at hj
        rcases hj with rfl | hj
        · exact hpos.2
        · exact Nat.lt_of_lt_of_le (h.issued j hj) hpos.1

/-- what `next_id()` returns in the reference passes the direct C05 monitor: below the capacity, absent, and never
    returned before on this graph -/
theorem nextId_passes (c : Nat) (hs : Hist) (r r' : R) (i : Nat) (h : HistRel hs r) (hn : r.nextId c = some (r', i)) :
    i < c ∧ i ∉ R.keys r c ∧ i ∉ hs.issued := by
  unfold R.nextId at hn
  cases hf : (List.range c).find? (fun v => decide (v ∉ r.ids ∧ r.pos ≤ v)) with
  | none => rw [hf] at hn; cases hn
  | some id =>
    rw [hf] at hn
    simp only [Option.some.injEq, Prod.mk.injEq] at hn
    obtain ⟨_, hid⟩ := hn
    subst hid
    have hm := List.mem_of_find?_eq_some hf
    have hp := List.find?_some hf
    simp only [List.mem_range] at hm
    simp only [decide_eq_true_eq] at hp
    refine ⟨hm, fun hk => hp.1 ((mem_keys r c id hm).1 hk), fun hi => ?_⟩
    have := h.issued id hi
    omega


/-- hence **what the direct C03 monitor expects is what the reference answers**: `kid`, `kids` and `data` of a present
    vertex, recomputed from the raw history of binds and puts, are the reference's outputs — the direct monitor and
    the comparison with the reference can never disagree on a valid history -/
theorem direct_C03_is_reference (c : Nat) (hs : Hist) (r : R) (h : HistRel hs r) (v : Nat) (hv : v ∈ r.ids) (a : Label) :
    (R.step c r (.kid v a)).2 = .kid (lookup ((assocGet hs.edges v).getD []) a) ∧
    (R.step c r (.kids v)).2 = .kids ((assocGet hs.edges v).getD []) ∧
    (match (R.step c r (.data v)).2 with
      | .data d => d.map (·.toBytes) = assocGet hs.puts v
      | _ => False) := by
  refine ⟨?_, ?_, ?_⟩
  · simp only [R.step]; rw [h.edges v hv]
  · simp only [R.step]; rw [h.edges v hv]
  · simp only [R.step]; rw [h.puts v hv]


/-- one pair of the component search -/
def cstep1 (s : List Nat) (p : Nat × Nat) : List Nat :=
  if p.1 ∈ s ∧ p.2 ∉ s then p.2 :: s else if p.2 ∈ s ∧ p.1 ∉ s then p.1 :: s else s

def cround (P : List (Nat × Nat)) (s : List Nat) : List Nat := P.foldl cstep1 s

def citer (P : List (Nat × Nat)) : Nat → List Nat → List Nat
  | 0, s => s
  | n + 1, s => citer P n (cround P s)

theorem foldl_range_const {α} (g : α → α) : ∀ (n : Nat) (s : α), (List.range n).foldl (fun s _ => g s) s = Nat.rec (motive := fun _ => α → α) id (fun _ ih s => ih (g s)) n s := by
  intro n
  induction n with
  | zero => intro s; rfl
  | succ k ih =>
    intro s
    rw [List.range_succ_eq_map, List.foldl_cons, List.foldl_map]
    exact ih (g s)

theorem component_eq (P : List (Nat × Nat)) (v : Nat) : component P v = citer P (P.length + 1) [v] := by
  unfold component
  rw [foldl_range_const]
  generalize P.length + 1 = n
  generalize ([v] : List Nat) = s
  induction n generalizing s with
  | zero => rfl
  | succ k ih => exact ih _

def Sat (s : List Nat) (p : Nat × Nat) : Prop := p.1 ∈ s ↔ p.2 ∈ s

theorem cstep1_cases (s : List Nat) (p : Nat × Nat) :
    (cstep1 s p = s ∧ Sat s p) ∨ (∃ x, cstep1 s p = x :: s ∧ x ∉ s ∧ p.1 ∈ cstep1 s p ∧ p.2 ∈ cstep1 s p ∧ ¬ (p.1 ∈ s ∧ p.2 ∈ s)) := by
  unfold cstep1
  by_cases h1 : p.1 ∈ s ∧ p.2 ∉ s
  · rw [if_pos h1]
    exact Or.inr ⟨p.2, rfl, h1.2, List.mem_cons_of_mem _ h1.1, List.mem_cons_self, fun h => h1.2 h.2⟩
  · rw [if_neg h1]
    by_cases h2 : p.2 ∈ s ∧ p.1 ∉ s
    · rw [if_pos h2]
      exact Or.inr ⟨p.1, rfl, h2.2, List.mem_cons_self, List.mem_cons_of_mem _ h2.1, fun h => h2.2 h.1⟩
    · rw [if_neg h2]
      refine Or.inl ⟨rfl, ?_⟩
      unfold Sat
      constructor
      · intro a; exact Classical.byContradiction (fun b => h1 ⟨a, b⟩)
      · intro a; exact Classical.byContradiction (fun b => h2 ⟨a, b⟩)

theorem cstep1_mono (s : List Nat) (p : Nat × Nat) (x : Nat) (h : x ∈ s) : x ∈ cstep1 s p := by
  rcases cstep1_cases s p with ⟨e, _⟩ | ⟨y, e, _⟩ <;> rw [e]
  · exact h
  · exact List.mem_cons_of_mem _ h

theorem cround_mono (Q : List (Nat × Nat)) : ∀ (s : List Nat) (x : Nat), x ∈ s → x ∈ Q.foldl cstep1 s := by
  induction Q with
  | nil => intro s x h; exact h
  | cons p rest ih => intro s x h; exact ih _ x (cstep1_mono s p x h)

/-- a round either changes nothing — and then every pair it went through is saturated — or makes the list longer -/
theorem cround_cases (Q : List (Nat × Nat)) : ∀ (s : List Nat),
    (Q.foldl cstep1 s = s ∧ ∀ p ∈ Q, Sat s p) ∨ s.length < (Q.foldl cstep1 s).length := by
  induction Q with
  | nil => intro s; exact Or.inl ⟨rfl, by simp⟩
  | cons p rest ih =>
    intro s
    simp only [List.foldl_cons]
    have hlen : ∀ (t : List Nat), t.length ≤ (rest.foldl cstep1 t).length := by
      intro t
      rcases ih t with ⟨e, _⟩ | h
      · rw [e]; exact Nat.le_refl _
      · exact Nat.le_of_lt h
    rcases cstep1_cases s p with ⟨e, hs⟩ | ⟨x, e, _⟩
    · rw [e]
      rcases ih s with ⟨e2, h2⟩ | h
      · refine Or.inl ⟨e2, ?_⟩
        intro q hq
        simp only [List.mem_cons] at hq
        rcases hq with rfl | hq
        · exact hs
        · exact h2 q hq
      · exact Or.inr h
    · refine Or.inr ?_
      have := hlen (cstep1 s p)
      rw [e] at this ⊢
      simp only [List.length_cons] at this
      omega

/-- pairs with both ends in the list -/
def bothIn (P : List (Nat × Nat)) (s : List Nat) : Nat := (P.filter (fun p => decide (p.1 ∈ s ∧ p.2 ∈ s))).length

theorem filter_length_mono {α} (p q : α → Bool) (h : ∀ x, p x = true → q x = true) :
    ∀ (l : List α), (l.filter p).length ≤ (l.filter q).length := by
  intro l
  induction l with
  | nil => simp
  | cons x xs ih =>
    simp only [List.filter_cons]
    by_cases hp : p x = true
    · simp only [hp, h x hp, if_true, List.length_cons]; omega
    · simp only [hp, Bool.false_eq_true, if_false]
      split
      · simp only [List.length_cons]; omega
      · exact ih

theorem filter_length_strict {α} (p q : α → Bool) (h : ∀ x, p x = true → q x = true) (a : α) :
    ∀ (l : List α), a ∈ l → p a = false → q a = true → (l.filter p).length + 1 ≤ (l.filter q).length := by
  intro l
  induction l with
  | nil => intro h; cases h
  | cons x xs ih =>
    intro ha hpa hqa
    simp only [List.mem_cons] at ha
    simp only [List.filter_cons]
    rcases ha with rfl | ha
    · simp only [hpa, Bool.false_eq_true, if_false, hqa, if_true, List.length_cons]
      have := filter_length_mono p q h xs
      omega
    · have := ih ha hpa hqa
      by_cases hp : p x = true
      · simp only [hp, h x hp, if_true, List.length_cons]; omega
      · simp only [hp, Bool.false_eq_true, if_false]
        split
        · simp only [List.length_cons]; omega
        · exact this

theorem bothIn_le (P : List (Nat × Nat)) (s : List Nat) : bothIn P s ≤ P.length := List.length_filter_le _ _

/-- every element a pass adds puts one more pair of `P` with both ends inside -/
theorem bothIn_grows (P : List (Nat × Nat)) : ∀ (Q : List (Nat × Nat)), (∀ q ∈ Q, q ∈ P) → ∀ (s : List Nat),
    bothIn P s + ((Q.foldl cstep1 s).length - s.length) ≤ bothIn P (Q.foldl cstep1 s) := by
  intro Q
  induction Q with
  | nil => intro _ s; simp
  | cons p rest ih =>
    intro hQ s
    simp only [List.foldl_cons]
    have hp : p ∈ P := hQ p (by simp)
    have hrest := ih (fun q hq => hQ q (List.mem_cons_of_mem _ hq)) (cstep1 s p)
    rcases cstep1_cases s p with ⟨e, _⟩ | ⟨x, e, hx, h1, h2, hnot⟩
    · rw [e] at hrest ⊢; exact hrest
    · have hstrict : bothIn P s + 1 ≤ bothIn P (cstep1 s p) := by
        unfold bothIn
        apply filter_length_strict _ _ _ p P hp
        · simpa using hnot
        · simpa using ⟨h1, h2⟩
        · intro q hq
          simp only [decide_eq_true_eq] at hq ⊢
          exact ⟨cstep1_mono s p _ hq.1, cstep1_mono s p _ hq.2⟩
      have hl : (cstep1 s p).length = s.length + 1 := by rw [e]; simp
      have hge : (cstep1 s p).length ≤ (rest.foldl cstep1 (cstep1 s p)).length := by
        rcases cround_cases rest (cstep1 s p) with ⟨e2, _⟩ | h
        · rw [e2]; exact Nat.le_refl _
        · exact Nat.le_of_lt h
      omega

theorem citer_fix (P : List (Nat × Nat)) (s : List Nat) (h : cround P s = s) : ∀ n, citer P n s = s := by
  intro n
  induction n with
  | zero => rfl
  | succ k ih => simp only [citer, h]; exact ih

theorem citer_mono (P : List (Nat × Nat)) : ∀ (n : Nat) (s : List Nat) (x : Nat), x ∈ s → x ∈ citer P n s := by
  intro n
  induction n with
  | zero => intro s x h; exact h
  | succ k ih => intro s x h; exact ih _ x (cround_mono P s x h)

/-- with more rounds than pairs left to saturate, the search ends in a list in which every pair is saturated -/
theorem citer_sat (P : List (Nat × Nat)) : ∀ (n : Nat) (s : List Nat), P.length < bothIn P s + n →
    ∀ p ∈ P, Sat (citer P n s) p := by
  intro n
  induction n with
  | zero => intro s h; have := bothIn_le P s; omega
  | succ k ih =>
    intro s h
    simp only [citer]
    rcases cround_cases P s with ⟨e, hs⟩ | hlt
    · have e' : cround P s = s := e
      rw [e', citer_fix P s e' k]; exact hs
    · have := bothIn_grows P P (fun _ h => h) s
      apply ih
      unfold cround
      omega

/-- **the component search of the C01 monitor is complete**: whatever is connected to `v` through recorded pairs
    (inside any set `S`) is in `component P v` -/
theorem component_complete (P : List (Nat × Nat)) (S : Nat → Prop) (v w : Nat) (h : Conn P S v w) : w ∈ component P v := by
  rw [component_eq]
  have hsat := citer_sat P (P.length + 1) [v] (by omega)
  have hv : v ∈ citer P (P.length + 1) [v] := citer_mono P _ _ v (by simp)
  have key : ∀ a b, Conn P S a b → (a ∈ citer P (P.length + 1) [v] ↔ b ∈ citer P (P.length + 1) [v]) := by
    intro a b hc
    induction hc with
    | refl a _ => exact Iff.rfl
    | base a b hp _ _ =>
      rcases hp with hp | hp
      · exact hsat (a, b) hp
      · exact (hsat (b, a) hp).symm
    | trans a b c _ _ ih1 ih2 => exact ih1.trans ih2
  exact (key v w h).1 hv


/-- the bind pairs the C01 monitor keeps are the ghost pairs of the reachability invariant, and every endpoint of a
    kept pair is recorded as bound -/
structure PairsRel (hs : Hist) (P : List (Nat × Nat)) : Prop where
  pairs : hs.pairs = P
  bound : ∀ p ∈ hs.pairs, p.1 ∈ hs.bound ∧ p.2 ∈ hs.bound

theorem pairsRel_empty : PairsRel {} [] := ⟨rfl, by simp⟩

theorem pairsRel_step (n c : Nat) (hs : Hist) (r : R) (P : List (Nat × Nat)) (h : PairsRel hs P) (op : Op)
    (ok : OkStep n c r op) (keys' : List Nat) (out : String) :
    PairsRel (hs.update op (R.keys r c) keys' out) (pairsStep r P op) := by
  cases op with
  | add v =>
    have hv : v < c := ok
    simp only [Hist.update, pairsStep]
    by_cases hp : v ∈ r.ids
    · rw [if_pos ((mem_keys r c v hv).2 hp), if_pos hp]; exact h
    · rw [if_neg (fun hk => hp ((mem_keys r c v hv).1 hk)), if_neg hp]
      refine ⟨by simp only; rw [h.pairs], ?_⟩
      intro p hp'
      simp only [List.mem_filter, decide_eq_true_eq] at hp' ⊢
      obtain ⟨b1, b2⟩ := h.bound p hp'.1
      simp only [ne_eq]
      exact ⟨⟨b1, hp'.2.1⟩, ⟨b2, hp'.2.2⟩⟩
  | bind v1 v2 a =>
    simp only [Hist.update, pairsStep]
    refine ⟨by rw [h.pairs], ?_⟩
    intro p hp'
    simp only [List.mem_cons] at hp' ⊢
    rcases hp' with rfl | hp'
    · exact ⟨Or.inl rfl, Or.inr (Or.inl rfl)⟩
    · obtain ⟨b1, b2⟩ := h.bound p hp'
      exact ⟨Or.inr (Or.inr b1), Or.inr (Or.inr b2)⟩
  | put v d => exact ⟨h.pairs, h.bound⟩
  | data v => exact ⟨h.pairs, h.bound⟩
  | kid v a => exact h
  | kids v => exact h
  | keys => exact h
  | nextId =>
    simp only [Hist.update, pairsStep]
    split
    · exact ⟨h.pairs, h.bound⟩
    · exact h

/-- **the direct C01 monitor accepts every reachable step**: if a vertex is gone after a call within the limits, then
    the call is a read of a vertex the monitor lists as unread, the lost vertex is in the component the monitor
    computes from its bind pairs, it is not listed as unread (unless it is the vertex read) and it is listed as bound
    — none of the monitor's three rejections can fire -/
theorem direct_C01_accepts {n c : Nat} {g : G Label Hex} {r : R} {P : List (Nat × Nat)} (hreach : Reach n c g r P)
    (hs : Hist) (h : HistRel hs r) (hp : PairsRel hs P) (op : Op) (ok : OkStep n c r op)
    (w : Nat) (hw : w ∈ R.keys r c) (hgone : w ∉ R.keys (R.step c r op).1 c) :
    ∃ v, op = .data v ∧ v ∈ hs.unread ∧ w ∈ component hs.pairs v ∧ (w ≠ v → w ∉ hs.unread) ∧ w ∈ hs.bound := by
  obtain ⟨g', hstep, hreach'⟩ := hreach.next op ok
  have hk := hreach.keys
  have hk' := hreach'.keys
  have hw0 : w ∈ keys g := by rw [hk.1]; exact hw
  have hg0 : w ∉ keys g' := by rw [hk'.1]; exact hgone
  obtain ⟨v, e, hu, hconn, hunr, q, hq, hqw⟩ := Props.C01.safety hreach op ok g' _ hstep w hw0 hg0
  subst e
  have hv : v ∈ r.ids := ok
  have hwid : w ∈ r.ids := (hk.2 w).1 hw0
  refine ⟨v, rfl, (h.unread v hv).2 hu, ?_, ?_, ?_⟩
  · rw [hp.pairs]; exact component_complete P _ v w hconn
  · intro hne hm
    have := (h.unread w hwid).1 hm
    rw [hunr hne] at this; cases this
  · rw [← hp.pairs] at hq
    obtain ⟨b1, b2⟩ := hp.bound q hq
    rcases hqw with rfl | rfl
    · exact b1
    · exact b2


theorem assocGet_map_self {β} (l : List Nat) (f : Nat → β) (v : Nat) (hv : v ∈ l) :
    assocGet (l.map (fun w => (w, f w))) v = some (f v) := by
  unfold assocGet
  induction l with
  | nil => cases hv
  | cons x xs ih =>
    simp only [List.map_cons, List.find?_cons]
    by_cases hx : x = v
    · subst hx; simp
    · simp only [hx, decide_false]
      simp only [List.mem_cons] at hv
      rcases hv with rfl | hv
      · exact absurd rfl hx
      · exact ih hv

theorem assocGet_filterMap_self {β} (l : List Nat) (f : Nat → Option β) (v : Nat) (hv : v ∈ l) :
    assocGet (l.filterMap (fun w => (f w).map (fun d => (w, d)))) v = f v := by
  unfold assocGet
  induction l with
  | nil => cases hv
  | cons x xs ih =>
    simp only [List.filterMap_cons]
    by_cases hx : x = v
    · subst hx
      cases hf : f x with
      | none =>
        simp only [Option.map_none]
        -- no later entry has key x with a value, because the values come from `f`
        have : ∀ (ys : List Nat), (ys.filterMap (fun w => (f w).map (fun d => (w, d)))).find? (fun e => decide (e.1 = x)) = none := by
          intro ys
          induction ys with
          | nil => rfl
          | cons y ys ih2 =>
            simp only [List.filterMap_cons]
            cases hy : f y with
            | none => simpa using ih2
            | some d =>
              simp only [Option.map_some, List.find?_cons]
              by_cases hyx : y = x
              · subst hyx; rw [hf] at hy; cases hy
              · simp only [hyx, decide_false]; exact ih2
        rw [this xs]; rfl
      | some d => simp
    · simp only [List.mem_cons] at hv
      rcases hv with rfl | hv
      · exact absurd rfl hx
      · cases hf : f x with
        | none => simpa using ih hv
        | some d =>
          simp only [Option.map_some, List.find?_cons, hx, decide_false]
          exact ih hv

/-- the history tables re-created from a reference state (after `merge`, `slice` and scripts, whose internal calls
    the direct monitors do not see one by one) are that state's tables -/
theorem histRel_ofR (r : R) (p0 : List (Nat × Nat)) (b0 issued : List Nat) (hi : ∀ i ∈ issued, i < r.pos) :
    HistRel (Hist.ofR r p0 b0 issued) r := by
  refine ⟨?_, ?_, ?_, hi⟩
  · intro v hv
    simp only [Hist.ofR]
    rw [assocGet_map_self r.ids r.edg v hv]; rfl
  · intro v hv
    simp only [Hist.ofR]
    have := assocGet_filterMap_self r.ids (fun w => (r.dat w).map (·.toBytes)) v hv
    simp only [Option.map_map, Function.comp_def] at this
    exact this
  · intro v hv
    simp only [Hist.ofR, List.mem_filter, hv, true_and]


end Props.Driver
