import Core.Eqv
import Drv.Basic
/-! # Driver code the verdicts depend on

The generators and the monitors flatten the closure tables of the reference every 24 calls (`Drv.compactR`). The
flattened state agrees with the original below the capacity, and states that agree there are indistinguishable by
valid histories (`Core/Eqv.lean`): flattening changes no verdict. -/
namespace Props.Driver
open Sodg Drv

theorem getD_ofFn {α} (c : Nat) (f : Fin c → α) (d : α) (v : Nat) (hv : v < c) : (Array.ofFn f).getD v d = f ⟨v, hv⟩ := by
  simp [Array.getD, hv]

/-- the flattened reference state agrees with the original below the capacity … -/
theorem compactR_eqv (c : Nat) (r : R) : Eqv c r (compactR c r) := by
  refine ⟨rfl, rfl, rfl, ?_, ?_, ?_, ?_⟩ <;> intro v hv <;> simp only [compactR] <;> rw [getD_ofFn c _ _ v hv]

/-- … and one valid call is valid on both, answers the same on both and leaves states that agree again … -/
theorem compactR_step (n c : Nat) (r r' : R) (h : Eqv c r r') (hb : IdsBelow c r) (op : Op) (ok : OkStep n c r op) :
    OkStep n c r' op ∧ (R.step c r op).2 = (R.step c r' op).2 ∧ Eqv c (R.step c r op).1 (R.step c r' op).1 ∧
      IdsBelow c (R.step c r op).1 :=
  ⟨(h.step hb op ok).1, (h.step hb op ok).2.1, (h.step hb op ok).2.2, hb.step op ok⟩

/-- … hence **flattening is invisible to every valid history**: same validity of every call, same outputs -/
theorem compactR_run (n c : Nat) (r : R) (hb : IdsBelow c r) (ops : List Op) (hv : Valid n c r ops) :
    Valid n c (compactR c r) ops ∧ R.run c r ops = R.run c (compactR c r) ops :=
  Eqv.run ops r (compactR c r) (compactR_eqv c r) hb hv

end Props.Driver
