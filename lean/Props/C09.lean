import Core
import Codec
/-! # C09 — a truncated image is rejected, never half-loaded -/
namespace Props.C09
open Sodg Cd

/-- **every cut point of every image**: for every well-formed graph (any size, any labels incl. multi-byte
    characters, inline and heap data, any number of edges up to `N`) and every prefix length `k` below the size of
    the image, `load` of the first `k` bytes is the EOF error — never `ok`, never a panic -/
theorem truncated_rejected (g : G Label Hex) (h : WfG g) (k : Nat) (hk : k < (save g).length) :
    load g.n ((save g).take k) = .error .eof := Cd.load_truncated g h k hk

/-- **for every reachable graph and every cut point**: the image of a graph reached by a valid history of
    representable calls (see `Props.C08.load_save_reachable`) is rejected at every proper prefix -/
theorem truncated_rejected_reachable {n c : Nat} {g : G Label Hex} {r : R Label Hex} {P : List (Nat × Nat)}
    (h : ReachW wfLabel wfHex n c g r P) (hc : c < 2 ^ 64) (hn : n < 2 ^ 64) (k : Nat) (hk : k < (save g).length) :
    load g.n ((save g).take k) = .error .eof := Cd.load_truncated g (ReachW.wfG h hc hn) k hk

/-- the method: a parser is *strict* if, whenever it succeeds it consumed an exact prefix, succeeds identically
    whatever follows, and reports EOF on every proper prefix of what it consumed; the image decoder is strict -/
theorem decoder_strict (n : Nat) : Strict (decImg n decLabel decHex) := strict_Img n decLabel decHex strict_label strict_hex

/-- and the complete image is accepted (so the statement above is not vacuous: the full file loads) -/
theorem full_image_loads (g : G Label Hex) (h : WfG g) : load g.n (save g) = .ok { g with next := 0 } := Cd.load_save g h

example : ∃ g, demoG = some g ∧ WfG g ∧ 100 < (save g).length := by
  refine ⟨_, rfl, ?_, ?_⟩ <;> decide +kernel

end Props.C09
