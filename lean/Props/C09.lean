import Core
import Codec
/-! # C09 — a truncated image is rejected, never half-loaded -/
namespace Props.C09
open Sodg Cd

/-- **every cut point of every image**: for every well-formed graph (any size, any labels incl. multi-byte
    characters, inline and heap data, any number of edges up to `N`) and every prefix length `k` below the size of
    the image, `load` of the first `k` bytes is the EOF error — never `ok`, never a panic -/
theorem truncated_rejected (g : G Label Hex) (h : WfG g) (k : Nat) (hk : k < (save g).length) :
    load g.n ((save g).take k) = .error .eof := Cd.load_truncated g h k hk

/-- **for every reachable graph and every cut point**: the image of a graph reached by a valid history of
    representable calls (see `Props.C08.load_save_reachable`) is rejected at every proper prefix -/
theorem truncated_rejected_reachable {n c : Nat} {g : G Label Hex} {r : R Label Hex} {P : List (Nat × Nat)}
    (h : ReachW wfLabel wfHex n c g r P) (hc : c < 2 ^ 64) (hn : n < 2 ^ 64) (k : Nat) (hk : k < (save g).length) :
    load g.n ((save g).take k) = .error .eof := Cd.load_truncated g (ReachW.wfG h hc hn) k hk

/-- the method: a parser is *strict* if, whenever it succeeds it consumed an exact prefix, succeeds identically
    whatever follows, and reports EOF on every proper prefix of what it consumed; the image decoder is strict -/
theorem decoder_strict (n : Nat) : Strict (decImg n decLabel decHex) := strict_Img n decLabel decHex strict_label strict_hex

/-- and the complete image is accepted (so the statement above is not vacuous: the full file loads) -/
theorem full_image_loads (g : G Label Hex) (h : WfG g) : load g.n (save g) = .ok { g with next := 0 } := Cd.load_save g h

example : ∃ g, demoG = some g ∧ WfG g ∧ 100 < (save g).length := by
  refine ⟨_, rfl, ?_, ?_⟩ <;> decide +kernel

/-! ### graphs with removed slots (`join()` inside a non-tree `merge`, Core/Holes.lean)

C09 quantifies over *every reachable graph*. After a merge that reached `join` the vertex store has a removed slot;
`Serialize for emap::Map` then writes the number of occupied slots and the occupied slots with their keys, so the keys of the
image have a gap (`saveX`, Codec/Holes.lean). The complete image of such a graph does not load (the real decoder sizes the table
by the entry count and panics on the keys after the gap) — but every *cut* image is still rejected with EOF, because the decoder
reads the whole length-prefixed sequence before it looks at any key. -/

/-- every cut point of the image of a graph with removed slots -/
theorem truncated_rejected_with_removed_slots (x : Sodg.GX Label Hex) (h : WfG x.g) (k : Nat) (hk : k < (saveX x).length) :
    load x.g.n ((saveX x).take k) = .error .eof := Cd.load_truncatedX' x h k hk

/-- with no removed slot `saveX` is `save` -/
theorem image_without_removed_slots (g : G Label Hex) : saveX ⟨g, []⟩ = save g := Cd.saveX_nohole g

/-- and the *complete* image of such a graph (`loadX`, Codec/HolesLoad.lean: the decoder with emap's rule "the table is as long as
    the entry count, a key at or above it is a panic"; equal to `load` wherever `load` returns a graph): with no gap in the keys —
    the removed slots are exactly the top ones — it loads into a smaller store, with a gap it panics; nothing else happens -/
theorem complete_image_with_removed_slots (x : Sodg.GX Label Hex) (h : WfG x.g) :
    loadX x.g.n (saveX x) =
      if (slotsX x).map Prod.fst = List.range (slotsX x).length then
        .ok (ofImg x.g.n ⟨x.g.st.toList, x.g.br.toList, (slotsX x).map Prod.snd⟩)
      else .error .panic := Cd.loadX_saveX x (Cd.wfGX_of_wfG x h)

theorem loadX_is_load_where_load_answers (n : Nat) (w : List UInt8) (g : G Label Hex) (h : load n w = .ok g) :
    loadX n w = .ok g := Cd.loadX_of_load n w g h

/-- non-vacuity: the demo graph with its slot 1 removed is such a graph, and its image is shorter than the full one -/
example : ∃ g, demoG = some g ∧ WfG g ∧ (saveX ⟨g, [1]⟩).length < (save g).length := by
  refine ⟨_, rfl, ?_, ?_⟩ <;> decide +kernel

end Props.C09
