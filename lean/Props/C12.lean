import Core
set_option linter.unusedSectionVars false
/-! # C12 — merge() never silently drops part of the right graph

`mergeRec2` is `merge_rec` with both passes, as the driver executes it; `Sodg.merge` adds the completeness check
`mapped.len() == g.len()` literally. The statements are on the reference interpretation; `model_refines` carries
them to the model for every left graph reachable within the limits. -/
namespace Props.C12
open Sodg P
variable {L D : Type} [DecidableEq L] [Inhabited D]

/-- the model's run of `merge_rec` returns what the run on the reference returns, and ends in a related state -/
theorem model_refines (n c : Nat) (h : RightView L D) (fuel left right : Nat) (g : G L D) (r : R L D)
    (hr : RelAt n c g r) (hv : ValidRun (R.step c) (OkStep n c) (mergeRec2 h fuel left right []) r) :
    (runR (R.step c) (mergeRec2 h fuel left right []) r = none ∧ runM step (mergeRec2 h fuel left right []) g = none) ∨
    (∃ a g' r', runM step (mergeRec2 h fuel left right []) g = some (a, g') ∧
      runR (R.step c) (mergeRec2 h fuel left right []) r = some (a, r') ∧ RelAt n c g' r') :=
  prog_refines n c _ g r hr hv

/-- **Ok only if complete**: if every edge target of the right graph is present and the table built by
    `merge_rec` has as many keys as the right graph has present vertices (the test `merge` makes before returning
    `Ok`), then every present vertex of the right graph is in the table -/
theorem ok_implies_complete (c : Nat) (h : RightView L D) (hk : h.keys.Nodup) (right : Nat) (hr : right ∈ h.keys)
    (closed : ∀ u ∈ h.keys, ∀ p ∈ h.edges u, p.2 ∈ h.keys) (fuel left : Nat) (r r' : R L D) (m' : Mapped)
    (hrun : runR (R.step c) (mergeRec2 h fuel left right []) r = some (some m', r'))
    (hlen : (mkeys m').length = h.keys.length) : ∀ v ∈ h.keys, v ∈ mkeys m' :=
  Sodg.ok_implies_complete (R.step c) h hk right hr closed fuel left r m' r'
    (link (R.step c) (R.kid_state c) h fuel left right [] r m' r' hrun) hlen

/-- **an unreachable present vertex forces `Err`**: the keys of the table are duplicate-free and reachable from
    `right`, so if some present vertex cannot be reached the table is strictly shorter than the list of present
    vertices — `merged != scope`, and that vertex is among the ones named as missed -/
theorem unreachable_gives_err (c : Nat) (h : RightView L D) (hk : h.keys.Nodup) (right : Nat)
    (closed : ∀ u ∈ h.keys, ∀ p ∈ h.edges u, p.2 ∈ h.keys) (hr : right ∈ h.keys)
    (fuel left : Nat) (r r' : R L D) (m' : Mapped)
    (hrun : runR (R.step c) (mergeRec2 h fuel left right []) r = some (some m', r'))
    (v : Nat) (hv : v ∈ h.keys) (hun : ¬ HReach h right v) :
    (mkeys m').length < h.keys.length ∧ v ∈ h.keys.filter (fun x => decide (x ∉ mkeys m')) := by
  have hrun1 := link (R.step c) (R.kid_state c) h fuel left right [] r m' r' hrun
  have sp := (table_spec (R.step c) h (fun x => HReach h right x ∧ x ∈ h.keys)
    (fun u a w hu he => ⟨HReach.step hu.1 he, closed u hu.2 (a, w) he⟩) fuel).1 left right [] r m' r' ⟨HReach.refl, hr⟩ hrun1
  have nd : (mkeys m').Nodup := sp.nodup (by simp [mkeys])
  have sub := sp.sub (by simp [mkeys])
  have hvn : v ∉ mkeys m' := fun hm => hun (sub v hm).1
  have : ∀ k ∈ mkeys m', k ∈ h.keys.erase v := by
    intro k hkm
    rw [List.Nodup.mem_erase_iff hk]
    exact ⟨by rintro rfl; exact hvn hkm, (sub k hkm).2⟩
  have h1 := nd.length_le_of_subset this
  rw [List.length_erase_of_mem hv] at h1
  have : 0 < h.keys.length := List.length_pos_of_mem hv
  refine ⟨by omega, ?_⟩
  simp [List.mem_filter, hv, hvn]

/-- the driver's `merge` makes exactly that test: `Ok` iff the table is as long as the list of present vertices -/
theorem merge_outcome (g hg : G L D) (left right : Nat) (g' : G L D) (out : MergeOut)
    (h : merge g hg left right = some (g', out)) :
    (out = .ok → ∃ m, runM step (mergeRec2 (viewOf hg) (cap hg + 1) left right []) g = some (some m, g') ∧
        (mkeys m).length = (keys hg).length) ∧
    (∀ ms, out = .err ms → ∃ m, runM step (mergeRec2 (viewOf hg) (cap hg + 1) left right []) g = some (some m, g') ∧
        (mkeys m).length ≠ (keys hg).length ∧ ms = (keys hg).filter (fun v => decide (v ∉ mkeys m))) := by
  unfold merge at h
  split at h
  · split at h
    · cases h
    · cases h; exact ⟨fun e => (by cases e), fun ms e => (by cases e)⟩
    next m g1 hrun =>
      split at h
      next hl => cases h; exact ⟨fun _ => ⟨m, hrun, hl⟩, fun ms e => (by cases e)⟩
      next hl => cases h; exact ⟨fun e => (by cases e), fun ms e => (by cases e; exact ⟨m, hrun, hl, rfl⟩)⟩
  · cases h

/-- the same outcome in the model of `merge()` in full (`mergeX`, with `join`): `Ok` stays `Ok`, `Err missed` stays `Err` with
    the same missed vertices, the left graph is the same and no slot was removed -/
theorem merge_in_full_same_outcome (g hg g' : G L D) (left right : Nat) (htgt : ∀ u, ∀ e ∈ edg hg u, e.2 < cap hg) :
    (merge g hg left right = some (g', .ok) → mergeX ⟨g, []⟩ ⟨hg, []⟩ left right = (⟨g', []⟩, some .ok)) ∧
    (∀ ms, merge g hg left right = some (g', .err ms) →
      mergeX ⟨g, []⟩ ⟨hg, []⟩ left right = (⟨g', []⟩, some (.err ms))) :=
  ⟨fun hm => mergeX_of_mergeT hg htgt g g' left right .ok .ok (mergeT_of_merge g hg g' left right .ok hm) rfl,
   fun ms hm => mergeX_of_mergeT hg htgt g g' left right (.err ms) (.err ms)
     (mergeT_of_merge g hg g' left right (.err ms) hm) rfl⟩

end Props.C12
