/-! Feasibility probe (not framework code): repaired GC core, label abstracted to Nat, data to List UInt8 -/
namespace Sodg

inductive Pers | empty | stored | taken
deriving DecidableEq, Repr, Inhabited

structure Vertex where
  branch : Nat := 0
  data : List UInt8 := []
  pers : Pers := .empty
  edges : List (Nat × Nat) := []
deriving Repr, Inhabited, DecidableEq

structure G where
  n : Nat
  vs : Array Vertex
  br : Array (List Nat)
  st : Array Nat
  next : Nat
deriving Repr

def blank : Vertex := {}

def empty (n cap : Nat) : G :=
  { n, vs := Array.replicate cap blank,
    br := ((Array.replicate 16 ([] : List Nat)).setIfInBounds 0 [0]).setIfInBounds 1 [0],
    st := Array.replicate 16 0, next := 0 }

def tag (g : G) (v : Nat) : Nat := g.vs[v]!.branch
def pers (g : G) (v : Nat) : Pers := g.vs[v]!.pers
def mem (g : G) (b : Nat) : List Nat := g.br[b]!
def cnt (g : G) (b : Nat) : Nat := g.st[b]!
def cap (g : G) : Nat := g.vs.size

def upsert (es : List (Nat × Nat)) (a t : Nat) : List (Nat × Nat) :=
  match es with
  | [] => [(a, t)]
  | (b, u) :: r => if b = a then (b, t) :: r else (b, u) :: upsert r a t

-- micro-steps -------------------------------------------------------------
def setTag (g : G) (v b : Nat) : G := { g with vs := g.vs.modify v (fun x => { x with branch := b }) }
def setPers (g : G) (v : Nat) (p : Pers) : G := { g with vs := g.vs.modify v (fun x => { x with pers := p }) }
def setData (g : G) (v : Nat) (d : List UInt8) : G := { g with vs := g.vs.modify v (fun x => { x with data := d }) }
def setEdges (g : G) (v : Nat) (e : List (Nat × Nat)) : G := { g with vs := g.vs.modify v (fun x => { x with edges := e }) }
def pushMem (g : G) (b v : Nat) : G := { g with br := g.br.modify b (· ++ [v]) }
def incr (g : G) (b : Nat) : G := { g with st := g.st.modify b (· + 1) }
def decr (g : G) (b : Nat) : G := { g with st := g.st.modify b (· - 1) }
def kill (vs : Array Vertex) (ms : List Nat) : Array Vertex :=
  ms.foldl (fun a v => a.modify v (fun x => { x with branch := 0 })) vs
def collect (g : G) (b : Nat) : G := { g with vs := kill g.vs (mem g b), br := g.br.setIfInBounds b [] }
def enroll (g : G) (v b : Nat) : G := if pers g v = .stored then incr g b else g

/-- join `v` (currently ungrouped) to group `b` -/
def joinGrp (g : G) (v b : Nat) : Option G :=
  if (mem g b).length < 16 then some (enroll (pushMem (setTag g v b) b v) v b) else none

def firstEmpty (g : G) : Option Nat := (List.range 16).find? (fun b => mem g b = [])

-- operations (none = panic) ------------------------------------------------
def add (g : G) (v : Nat) : Option G :=
  if v < cap g then
    if tag g v = 0 then some { g with vs := g.vs.setIfInBounds v { blank with branch := 1 } } else some g
  else none

def put (g : G) (v : Nat) (d : List UInt8) : Option G :=
  if v < cap g then
    let g1 := setData (setPers g v .stored) v d
    if pers g v ≠ .stored ∧ tag g v ≠ 1 then
      (if tag g v < 16 then some (incr g1 (tag g v)) else none)
    else some g1
  else none

def data (g : G) (v : Nat) : Option (G × Option (List UInt8)) :=
  if v < cap g then
    match pers g v with
    | .empty => some (g, none)
    | .taken => some (g, some g.vs[v]!.data)
    | .stored =>
      let b := tag g v
      let g1 := setPers g v .taken
      if b = 1 then some (g1, some g.vs[v]!.data)
      else if b < 16 then
        if cnt g b = 0 then none
        else if cnt g b = 1 then some (collect (decr g1 b) b, some g.vs[v]!.data)
        else some (decr g1 b, some g.vs[v]!.data)
      else none
  else none

def bind (g : G) (v1 v2 a : Nat) : Option G :=
  if v1 < cap g ∧ v2 < cap g then
    let ours := tag g v1
    let theirs := tag g v2
    let es := upsert g.vs[v1]!.edges a v2
    if es.length ≤ g.n then
      let g0 := setEdges g v1 es
      if ours = 1 then
        if theirs = 1 then
          match firstEmpty g0 with
          | some b => (joinGrp g0 v1 b).bind (fun g1 => joinGrp g1 v2 b)
          | none => none            -- beyond the limit of 14 live groups: out of model
        else joinGrp g0 v1 theirs
      else if theirs = 1 then joinGrp g0 v2 ours
      else some g0
    else none
  else none

end Sodg
