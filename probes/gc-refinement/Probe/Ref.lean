import Probe.InvData
/-! Feasibility probe: abstract reference + refinement relation (GC part only: alive / group / unread) -/
namespace Sodg

structure R where
  ids : List Nat              -- alive vertices
  grp : Nat → Option Nat      -- group birth number, none = ungrouped
  unr : Nat → Bool            -- holds a put-but-unread datum
  fresh : Nat

def R.empty : R := { ids := [], grp := fun _ => none, unr := fun _ => false, fresh := 0 }

def upd {α} (f : Nat → α) (v : Nat) (x : α) : Nat → α := fun w => if w = v then x else f w

@[simp] theorem upd_same {α} (f : Nat → α) (v : Nat) (x : α) : upd f v x v = x := by simp [upd]
theorem upd_get {α} (f : Nat → α) (v w : Nat) (x : α) : upd f v x w = if w = v then x else f w := rfl

def R.add (r : R) (v : Nat) : R :=
  if v ∈ r.ids then r else { r with ids := v :: r.ids, grp := upd r.grp v none, unr := upd r.unr v false }

def R.bind (r : R) (v1 v2 : Nat) : R :=
  match r.grp v1, r.grp v2 with
  | none, none => { r with grp := upd (upd r.grp v1 (some r.fresh)) v2 (some r.fresh), fresh := r.fresh + 1 }
  | none, some k => { r with grp := upd r.grp v1 (some k) }
  | some k, none => { r with grp := upd r.grp v2 (some k) }
  | some _, some _ => r

def R.put (r : R) (v : Nat) : R := { r with unr := upd r.unr v true }

def R.members (r : R) (k : Nat) : List Nat := r.ids.filter (fun w => r.grp w = some k)

def R.data (r : R) (v : Nat) : R :=
  if r.unr v then
    let r1 := { r with unr := upd r.unr v false }
    match r.grp v with
    | none => r1
    | some k =>
      if (r1.members k).all (fun w => !r1.unr w) then
        { r1 with ids := r1.ids.filter (fun w => r1.grp w ≠ some k) }
      else r1
  else r

/-- live groups -/
def R.live (r : R) (k : Nat) : Prop := ∃ v ∈ r.ids, r.grp v = some k

structure Rel (g : G) (r : R) : Prop where
  inv : Inv g
  nd : r.ids.Nodup
  alive : ∀ v, v ∈ r.ids ↔ (v < cap g ∧ tag g v ≠ 0)
  ungr : ∀ v ∈ r.ids, r.grp v = none ↔ tag g v = 1
  same : ∀ v ∈ r.ids, ∀ w ∈ r.ids, (r.grp v ≠ none ∧ r.grp v = r.grp w) ↔ (2 ≤ tag g v ∧ tag g v = tag g w)
  unr : ∀ v ∈ r.ids, r.unr v = true ↔ pers g v = .stored
  lt : ∀ v ∈ r.ids, ∀ k, r.grp v = some k → k < r.fresh

end Sodg
