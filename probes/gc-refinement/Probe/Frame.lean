import Probe.Core
namespace Sodg

/-! accessor/micro-step frame lemmas -/

section
variable (g : G) (v w b c : Nat) (p : Pers) (d : List UInt8) (e : List (Nat × Nat))

@[simp] theorem cap_setTag : cap (setTag g v b) = cap g := by simp [cap, setTag]
@[simp] theorem cap_setPers : cap (setPers g v p) = cap g := by simp [cap, setPers]
@[simp] theorem cap_setData : cap (setData g v d) = cap g := by simp [cap, setData]
@[simp] theorem cap_setEdges : cap (setEdges g v e) = cap g := by simp [cap, setEdges]
@[simp] theorem cap_pushMem : cap (pushMem g b v) = cap g := rfl
@[simp] theorem cap_incr : cap (incr g b) = cap g := rfl
@[simp] theorem cap_decr : cap (decr g b) = cap g := rfl

theorem tag_setTag : tag (setTag g v b) w = if v = w ∧ w < cap g then b else tag g w := by
  unfold tag setTag cap; by_cases h : w < g.vs.size <;> grind
@[simp] theorem tag_setPers : tag (setPers g v p) w = tag g w := by
  unfold tag setPers; by_cases h : w < g.vs.size <;> grind
@[simp] theorem tag_setData : tag (setData g v d) w = tag g w := by
  unfold tag setData; by_cases h : w < g.vs.size <;> grind
@[simp] theorem tag_setEdges : tag (setEdges g v e) w = tag g w := by
  unfold tag setEdges; by_cases h : w < g.vs.size <;> grind
@[simp] theorem tag_pushMem : tag (pushMem g b v) w = tag g w := rfl
@[simp] theorem tag_incr : tag (incr g b) w = tag g w := rfl
@[simp] theorem tag_decr : tag (decr g b) w = tag g w := rfl

@[simp] theorem pers_setTag : pers (setTag g v b) w = pers g w := by
  unfold pers setTag; by_cases h : w < g.vs.size <;> grind
theorem pers_setPers : pers (setPers g v p) w = if v = w ∧ w < cap g then p else pers g w := by
  unfold pers setPers cap; by_cases h : w < g.vs.size <;> grind
@[simp] theorem pers_setData : pers (setData g v d) w = pers g w := by
  unfold pers setData; by_cases h : w < g.vs.size <;> grind
@[simp] theorem pers_setEdges : pers (setEdges g v e) w = pers g w := by
  unfold pers setEdges; by_cases h : w < g.vs.size <;> grind
@[simp] theorem pers_pushMem : pers (pushMem g b v) w = pers g w := rfl
@[simp] theorem pers_incr : pers (incr g b) w = pers g w := rfl
@[simp] theorem pers_decr : pers (decr g b) w = pers g w := rfl

@[simp] theorem mem_setTag : mem (setTag g v b) c = mem g c := rfl
@[simp] theorem mem_setPers : mem (setPers g v p) c = mem g c := rfl
@[simp] theorem mem_setData : mem (setData g v d) c = mem g c := rfl
@[simp] theorem mem_setEdges : mem (setEdges g v e) c = mem g c := rfl
theorem mem_pushMem : mem (pushMem g b v) c = if b = c ∧ c < g.br.size then mem g c ++ [v] else mem g c := by
  unfold mem pushMem; by_cases h : c < g.br.size <;> grind
@[simp] theorem mem_incr : mem (incr g b) c = mem g c := rfl
@[simp] theorem mem_decr : mem (decr g b) c = mem g c := rfl

@[simp] theorem cnt_setTag : cnt (setTag g v b) c = cnt g c := rfl
@[simp] theorem cnt_setPers : cnt (setPers g v p) c = cnt g c := rfl
@[simp] theorem cnt_setData : cnt (setData g v d) c = cnt g c := rfl
@[simp] theorem cnt_setEdges : cnt (setEdges g v e) c = cnt g c := rfl
@[simp] theorem cnt_pushMem : cnt (pushMem g b v) c = cnt g c := rfl
theorem cnt_incr : cnt (incr g b) c = if b = c ∧ c < g.st.size then cnt g c + 1 else cnt g c := by
  unfold cnt incr; by_cases h : c < g.st.size <;> grind
theorem cnt_decr : cnt (decr g b) c = if b = c ∧ c < g.st.size then cnt g c - 1 else cnt g c := by
  unfold cnt decr; by_cases h : c < g.st.size <;> grind

@[simp] theorem brsize_setTag : (setTag g v b).br.size = g.br.size := rfl
@[simp] theorem brsize_setPers : (setPers g v p).br.size = g.br.size := rfl
@[simp] theorem brsize_setData : (setData g v d).br.size = g.br.size := rfl
@[simp] theorem brsize_setEdges : (setEdges g v e).br.size = g.br.size := rfl
@[simp] theorem brsize_pushMem : (pushMem g b v).br.size = g.br.size := by simp [pushMem]
@[simp] theorem brsize_incr : (incr g b).br.size = g.br.size := rfl
@[simp] theorem brsize_decr : (decr g b).br.size = g.br.size := rfl
@[simp] theorem stsize_setTag : (setTag g v b).st.size = g.st.size := rfl
@[simp] theorem stsize_setPers : (setPers g v p).st.size = g.st.size := rfl
@[simp] theorem stsize_setData : (setData g v d).st.size = g.st.size := rfl
@[simp] theorem stsize_setEdges : (setEdges g v e).st.size = g.st.size := rfl
@[simp] theorem stsize_pushMem : (pushMem g b v).st.size = g.st.size := rfl
@[simp] theorem stsize_incr : (incr g b).st.size = g.st.size := by simp [incr]
@[simp] theorem stsize_decr : (decr g b).st.size = g.st.size := by simp [decr]
end

/-- number of members with an unread datum -/
def unread (g : G) (ms : List Nat) : Nat := (ms.filter (fun v => pers g v = .stored)).length

structure Inv (g : G) : Prop where
  brsz : g.br.size = 16
  stsz : g.st.size = 16
  s0 : mem g 0 = [0]
  s1 : mem g 1 = [0]
  taglt : ∀ v, v < cap g → tag g v < 16
  memb : ∀ b, 2 ≤ b → b < 16 → ∀ v ∈ mem g b, v < cap g ∧ tag g v = b
  nodup : ∀ b, 2 ≤ b → b < 16 → (mem g b).Nodup
  own : ∀ v, v < cap g → 2 ≤ tag g v → v ∈ mem g (tag g v)
  count : ∀ b, 2 ≤ b → b < 16 → cnt g b = unread g (mem g b)

theorem unread_congr (g g' : G) (ms : List Nat) (h : ∀ v ∈ ms, pers g' v = pers g v) :
    unread g' ms = unread g ms := by
  unfold unread; congr 1; apply List.filter_congr; intro v hv; rw [h v hv]

theorem unread_append (g : G) (a b : List Nat) : unread g (a ++ b) = unread g a + unread g b := by
  simp [unread, List.filter_append]

end Sodg
