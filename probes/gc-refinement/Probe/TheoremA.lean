import Probe.RelBind
namespace Sodg

/-- the group part of `bind`, on the state in which the edge is already written -/
def bindGrp (g0 : G) (v1 v2 : Nat) : Option G :=
  if tag g0 v1 = 1 then
    if tag g0 v2 = 1 then
      match firstEmpty g0 with
      | some b => (joinGrp g0 v1 b).bind (fun g1 => joinGrp g1 v2 b)
      | none => none
    else joinGrp g0 v1 (tag g0 v2)
  else if tag g0 v2 = 1 then joinGrp g0 v2 (tag g0 v1)
  else some g0

theorem bind_eq (g : G) (v1 v2 a : Nat) :
    bind g v1 v2 a =
      if v1 < cap g ∧ v2 < cap g then
        if (upsert g.vs[v1]!.edges a v2).length ≤ g.n then
          bindGrp (setEdges g v1 (upsert g.vs[v1]!.edges a v2)) v1 v2
        else none
      else none := by
  unfold bind bindGrp
  simp only [tag_setEdges]
  rfl

/-- Limits and preconditions of `bind`, stated on the reference only. -/
structure BindOk (r : R) (v1 v2 : Nat) : Prop where
  p1 : v1 ∈ r.ids
  p2 : v2 ∈ r.ids
  ne : v1 ≠ v2
  newGrp : r.grp v1 = none → r.grp v2 = none → r.groups.length < 14
  join1 : r.grp v1 = none → ∀ k, r.grp v2 = some k → (r.members k).length < 16
  join2 : r.grp v2 = none → ∀ k, r.grp v1 = some k → (r.members k).length < 16

theorem joinGrp_some (g : G) (v b : Nat) (h : (mem g b).length < 16) : ∃ g', joinGrp g v b = some g' := by
  unfold joinGrp; rw [if_pos h]; exact ⟨_, rfl⟩

theorem rel_bindGrp (g0 : G) (r : R) (v1 v2 : Nat) (h : Rel g0 r) (ok : BindOk r v1 v2) :
    ∃ g', bindGrp g0 v1 v2 = some g' ∧ Rel g' (r.bind v1 v2) := by
  have c1 := (h.alive v1).1 ok.p1
  have c2 := (h.alive v2).1 ok.p2
  unfold bindGrp
  by_cases t1 : tag g0 v1 = 1
  · have g1n : r.grp v1 = none := (h.ungr v1 ok.p1).2 t1
    rw [if_pos t1]
    by_cases t2 : tag g0 v2 = 1
    · have g2n : r.grp v2 = none := (h.ungr v2 ok.p2).2 t2
      rw [if_pos t2]
      obtain ⟨b, hfe, hb2, hb16, hemp⟩ := free_slot g0 r h (ok.newGrp g1n g2n)
      rw [hfe]
      -- nobody carries tag b, nobody carries group `fresh`
      have notag : ∀ w ∈ r.ids, tag g0 w ≠ b := by
        intro w hw he
        have hwc := (h.alive w).1 hw
        have := h.inv.own w hwc.1 (by omega)
        rw [he, hemp] at this; cases this
      have nofresh : ∀ w ∈ r.ids, r.grp w ≠ some r.fresh := by
        intro w hw he; have := h.lt w hw _ he; omega
      obtain ⟨ga, hja⟩ := joinGrp_some g0 v1 b (by simp [hemp])
      have ra := rel_joinGrp g0 ga r v1 b r.fresh (r.fresh + 1) h ok.p1 t1 hb2 hb16
        (fun w hw => ⟨fun e => absurd e (nofresh w hw), fun e => absurd e (notag w hw)⟩)
        (by omega) (by omega) hja
      -- second join
      have memga : mem ga b = [v1] := by
        unfold joinGrp at hja; rw [if_pos (by simp [hemp])] at hja; cases hja
        unfold enroll; split <;> simp [mem_pushMem, hemp, h.inv.brsz, hb16]
      have tagga : ∀ w, tag ga w = if v1 = w then b else tag g0 w := by
        intro w
        unfold joinGrp at hja; rw [if_pos (by simp [hemp])] at hja; cases hja
        unfold enroll; split <;> simp [tag_setTag] <;> grind
      obtain ⟨gb, hjb⟩ := joinGrp_some ga v2 b (by simp [memga])
      have t2a : tag ga v2 = 1 := by rw [tagga]; simp [ok.ne, t2]
      have rb := rel_joinGrp ga gb _ v2 b r.fresh (r.fresh + 1) ra ok.p2 t2a hb2 hb16
        (by
          intro w hw
          simp only [upd_get]
          rw [tagga]
          by_cases hw1 : w = v1
          · subst hw1; simp
          · have : ¬ v1 = w := fun e => hw1 e.symm
            simp [hw1, this]
            exact ⟨fun e => absurd e (nofresh w hw), fun e => absurd e (notag w hw)⟩)
        (by omega) (by simp) hjb
      refine ⟨gb, by simp [hja, hjb], ?_⟩
      simpa [R.bind, g1n, g2n] using rb
    · rw [if_neg t2]
      obtain ⟨k, hk⟩ : ∃ k, r.grp v2 = some k := by
        cases hg : r.grp v2 with
        | none => exact absurd ((h.ungr v2 ok.p2).1 hg) t2
        | some k => exact ⟨k, rfl⟩
      have hb2 : 2 ≤ tag g0 v2 := ((h.same v2 ok.p2 v2 ok.p2).1 ⟨by simp [hk], rfl⟩).1
      have hb16 := h.inv.taglt v2 c2.1
      have hlen : (mem g0 (tag g0 v2)).length < 16 := by
        rw [← members_length g0 r h v2 ok.p2 k hk]; exact ok.join1 g1n k hk
      obtain ⟨ga, hja⟩ := joinGrp_some g0 v1 _ hlen
      have ra := rel_joinGrp g0 ga r v1 _ k r.fresh h ok.p1 t1 hb2 hb16
        (by
          intro w hw
          have := h.same v2 ok.p2 w hw
          constructor
          · intro e; exact (this.1 ⟨by simp [hk], by rw [hk, e]⟩).2.symm
          · intro e; have := (this.2 ⟨hb2, e.symm⟩).2; rw [← this, hk])
        (h.lt v2 ok.p2 k hk) (by omega) hja
      refine ⟨ga, hja, ?_⟩
      simpa [R.bind, g1n, hk] using ra
  · rw [if_neg t1]
    obtain ⟨k, hk⟩ : ∃ k, r.grp v1 = some k := by
      cases hg : r.grp v1 with
      | none => exact absurd ((h.ungr v1 ok.p1).1 hg) t1
      | some k => exact ⟨k, rfl⟩
    by_cases t2 : tag g0 v2 = 1
    · have g2n : r.grp v2 = none := (h.ungr v2 ok.p2).2 t2
      rw [if_pos t2]
      have hb2 : 2 ≤ tag g0 v1 := ((h.same v1 ok.p1 v1 ok.p1).1 ⟨by simp [hk], rfl⟩).1
      have hb16 := h.inv.taglt v1 c1.1
      have hlen : (mem g0 (tag g0 v1)).length < 16 := by
        rw [← members_length g0 r h v1 ok.p1 k hk]; exact ok.join2 g2n k hk
      obtain ⟨ga, hja⟩ := joinGrp_some g0 v2 _ hlen
      have ra := rel_joinGrp g0 ga r v2 _ k r.fresh h ok.p2 t2 hb2 hb16
        (by
          intro w hw
          have := h.same v1 ok.p1 w hw
          constructor
          · intro e; exact (this.1 ⟨by simp [hk], by rw [hk, e]⟩).2.symm
          · intro e; have := (this.2 ⟨hb2, e.symm⟩).2; rw [← this, hk])
        (h.lt v1 ok.p1 k hk) (by omega) hja
      refine ⟨ga, hja, ?_⟩
      simpa [R.bind, g2n, hk] using ra
    · rw [if_neg t2]
      obtain ⟨k2, hk2⟩ : ∃ k, r.grp v2 = some k := by
        cases hg : r.grp v2 with
        | none => exact absurd ((h.ungr v2 ok.p2).1 hg) t2
        | some k => exact ⟨k, rfl⟩
      refine ⟨g0, rfl, ?_⟩
      simpa [R.bind, hk, hk2] using h


/-! ### histories -/

inductive Op
  | add (v : Nat) | bind (v1 v2 a : Nat) | put (v : Nat) (d : List UInt8) | data (v : Nat)
deriving Repr

def R.step (r : R) : Op → R
  | .add v => r.add v
  | .bind v1 v2 _ => r.bind v1 v2
  | .put v _ => r.put v
  | .data v => r.data v

def step (g : G) : Op → Option G
  | .add v => add g v
  | .bind v1 v2 a => bind g v1 v2 a
  | .put v d => put g v d
  | .data v => (data g v).map (·.1)

/-- validity of one call, on the reference (plus the label limit, which in the full model is also a reference fact) -/
def OkStep (g : G) (r : R) : Op → Prop
  | .add v => v < cap g
  | .bind v1 v2 a => BindOk r v1 v2 ∧ (upsert g.vs[v1]!.edges a v2).length ≤ g.n
  | .put v _ => v ∈ r.ids
  | .data v => v ∈ r.ids

theorem rel_step (g : G) (r : R) (op : Op) (h : Rel g r) (ok : OkStep g r op) :
    ∃ g', step g op = some g' ∧ Rel g' (r.step op) := by
  cases op with
  | add v =>
    have : ∃ g', add g v = some g' := by
      unfold add; simp only [OkStep] at ok; rw [if_pos ok]; split <;> exact ⟨_, rfl⟩
    obtain ⟨g', hg⟩ := this
    exact ⟨g', hg, rel_add g g' r v h hg⟩
  | bind v1 v2 a =>
    obtain ⟨okb, hN⟩ := ok
    have c1 := (h.alive v1).1 okb.p1
    have c2 := (h.alive v2).1 okb.p2
    simp only [step, R.step]
    rw [bind_eq, if_pos ⟨c1.1, c2.1⟩, if_pos hN]
    exact rel_bindGrp _ r v1 v2 (rel_setEdges g r v1 _ h) okb
  | put v d =>
    have hvc := (h.alive v).1 ok
    have : ∃ g', put g v d = some g' := by
      unfold put; rw [if_pos hvc.1]; simp only
      split
      · have := h.inv.taglt v hvc.1; rw [if_pos this]; exact ⟨_, rfl⟩
      · exact ⟨_, rfl⟩
    obtain ⟨g', hg⟩ := this
    exact ⟨g', hg, rel_put g g' r v d h ok hg⟩
  | data v =>
    have hvc := (h.alive v).1 ok
    have : ∃ x, data g v = some x := by
      unfold data; rw [if_pos hvc.1]
      split
      · exact ⟨_, rfl⟩
      · exact ⟨_, rfl⟩
      next hp =>
        simp only
        split
        · exact ⟨_, rfl⟩
        next hb1 =>
          have hlt := h.inv.taglt v hvc.1
          have hb2 : 2 ≤ tag g v := by omega
          rw [if_pos hlt]
          have hvm := h.inv.own v hvc.1 hb2
          have hone := unread_setPers_of_mem g _ (h.inv.nodup _ hb2 hlt) v hvm hvc.1 hp
          have hcnt := h.inv.count _ hb2 hlt
          have : cnt g (tag g v) ≠ 0 := by omega
          rw [if_neg this]
          split <;> exact ⟨_, rfl⟩
    obtain ⟨⟨g', out⟩, hg⟩ := this
    exact ⟨g', by simp [step, hg], rel_data g g' r v out h ok hg⟩

theorem rel_empty (n c : Nat) : Rel (empty n c) R.empty := by
  have hi : Inv (empty n c) := by
    have e : ∀ b, 2 ≤ b → b < 16 → mem (empty n c) b = [] := by
      intro b h2 h16; unfold mem empty; grind
    have t : ∀ v, tag (empty n c) v = 0 := by
      intro v; unfold tag empty; by_cases hv : v < c <;> simp [hv, blank] <;> rfl
    refine ⟨by simp [empty], by simp [empty], by simp [mem, empty], by simp [mem, empty], ?_, ?_, ?_, ?_, ?_⟩
    · intro v _; rw [t]; omega
    · intro b h2 h16 v hv; rw [e b h2 h16] at hv; cases hv
    · intro b h2 h16; rw [e b h2 h16]; simp
    · intro v _ h2; rw [t] at h2; omega
    · intro b h2 h16; rw [e b h2 h16]; simp [unread, cnt, empty]; grind
  have t : ∀ v, tag (empty n c) v = 0 := by
    intro v; unfold tag empty; by_cases hv : v < c <;> simp [hv, blank] <;> rfl
  refine ⟨hi, by simp [R.empty], ?_, ?_, ?_, ?_, ?_⟩ <;> simp [R.empty, t]

/-- run a history on model and reference together; `none` = some call was invalid or panicked -/
def runBoth (g : G) (r : R) : List Op → Prop
  | [] => True
  | op :: rest => OkStep g r op ∧ ∀ g', step g op = some g' → runBoth g' (r.step op) rest

/-- **Theorem A (probe form)**: along every valid history, of any length, for every N and capacity,
no call panics and the model stays related to the reference; in particular `keys` agree. -/
theorem theoremA (ops : List Op) : ∀ (g : G) (r : R), Rel g r → runBoth g r ops →
    ∃ g', ops.foldlM step g = some g' ∧ Rel g' (ops.foldl R.step r) := by
  induction ops with
  | nil => intro g r h _; exact ⟨g, rfl, h⟩
  | cons op rest ih =>
    intro g r h hv
    obtain ⟨ok, hrest⟩ := hv
    obtain ⟨g1, hs, hr1⟩ := rel_step g r op h ok
    obtain ⟨g', hf, hr'⟩ := ih g1 (r.step op) hr1 (hrest g1 hs)
    exact ⟨g', by simp [List.foldlM_cons, hs, hf], hr'⟩

theorem keys_agree (g : G) (r : R) (h : Rel g r) (v : Nat) :
    v ∈ r.ids ↔ v ∈ (List.range (cap g)).filter (fun w => tag g w ≠ 0) := by
  rw [h.alive]; simp

#print axioms theoremA
#print axioms rel_empty
end Sodg
