#!/bin/bash
# lib/recheck_seed.sh <name> <property> [...]: apply seeded/<name>/patch.diff in a scratch worktree, run the quick checks of
# the listed properties against it (VERIF_REPO), print their result lines, remove the worktree and its build output
name=$1; shift
wt=/tmp/rs/$name
mkdir -p /tmp/rs
git -C /repo worktree add --detach $wt HEAD -q || exit 2
git -C $wt apply /verif/seeded/$name/patch.diff || exit 2
tag=$(python3 -c "import hashlib,sys;print(hashlib.sha1(sys.argv[1].encode()).hexdigest()[:8])" $wt)
for p in "$@"; do
  VERIF_REPO=$wt /verif/check $p --tier ${TIER:-quick} 2>&1 | grep -E "^(VIOLATION|KNOWN|$p \[)" | cut -c1-300
  r=$(ls -t /verif/.work/alt_$tag/replays/$p-*.json 2>/dev/null | head -1)
  [ -n "$r" ] && python3 - "$r" "$name" "$p" <<'P'
import json,sys,os
r=json.load(open(sys.argv[1]))
m=json.load(open(f"/verif/seeded/{sys.argv[2]}/meta.json"))
if r.get("ops") and r.get("kind") == "implementation-violates-property" and m["breaks_property"] == sys.argv[3]:
    open(f"/verif/corpus/{sys.argv[3]}_{sys.argv[2]}.ops", "w").write("\n".join(r["ops"]) + "\n")
    m.setdefault("rechecked", {})[sys.argv[3]] = {"ops": r["ops"], "observed": r.get("observed")}
    m["detected_by"] = sorted(set(m.get("detected_by", []) + [sys.argv[3]]))
    json.dump(m, open(f"/verif/seeded/{sys.argv[2]}/meta.json", "w"), indent=1, ensure_ascii=False)
print("   kind:", r.get("kind"), "| ops:", len(r.get("ops") or []), "|", (r.get("observed") or str(r.get("no_longer_checks")))[:200])
if r.get("ops"): print("   ", r["ops"][:40])
P
done
git -C /repo worktree remove --force $wt
rm -rf /verif/.work/harness_$tag /verif/.work/alt_$tag
