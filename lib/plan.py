"""Per-property exploration plans: which generator profiles run in which tier, what makes a history non-trivial,
and which implementation-against-implementation variants are compared."""
import re

CORE_MODELLED = [
    "modelled, not verified: emap/micromap/microstack observable behaviour (incl. panic points; for emap also a removed slot: get() is None, iter() skips it, Serialize writes the occupied slots with their keys, Deserialize sizes the table by the entry count, Clone keeps the gap), Hex clone",
]

# (profile, histories, calls per history)
PROPS = {
    "C01": {
        "quick": [("gc", 250, 120), ("limits", 60, 80), ("cycle", 28, 40), ("merge", 80, 0), ("fork", 50, 80), ("slice", 40, 30), ("ser", 16, 60)],
        "thorough": [("gc", 4000, 300), ("limits", 600, 200), ("cycle", 140, 400), ("rw", 1000, 200), ("alloc", 1000, 200), ("merge", 3000, 0), ("fork", 1000, 160), ("slice", 800, 50), ("ser", 200, 120)],
        "rule": "seeded random histories over add/bind/put/data/kid/kids/next_id with drain epilogue, filtered by the proved-equivalent validity predicate okStepB, plus histories with merge, clone, slice and save/load in them (the `no other call removes a vertex` clause and the accounting of data that arrived through those calls); distinct = by hash of the operation lines; non-trivial = at least one call after which keys() shrank (a collection)",
        "nontrivial": "collections",
        "modelled": CORE_MODELLED,
    },
    "C02": {
        "quick": [("wrap", 12, 0), ("gc", 250, 120), ("limits", 90, 80), ("cycle", 28, 40), ("ser", 16, 60), ("fork", 30, 80)],
        "thorough": [("wrap", 120, 0), ("gc", 4000, 300), ("limits", 900, 200), ("cycle", 140, 400), ("ser", 200, 120), ("fork", 500, 160)],
        "rule": "as C01 plus the limits profile (groups of 14-16 members, 13-14 live groups, N labels); non-trivial = at least one collection",
        "nontrivial": "collections",
        "modelled": CORE_MODELLED,
    },
    "C03": {
        "quick": [("wrap", 12, 0), ("rw", 300, 120), ("gc", 100, 120), ("ser", 16, 60), ("fork", 30, 80)],
        "thorough": [("wrap", 120, 0), ("rw", 4000, 300), ("gc", 1000, 300), ("ser", 200, 120), ("fork", 500, 160)],
        "rule": "read/write-heavy histories (label pool of Alpha, one-character and text labels; overwrites of existing labels; data lengths around the 8-byte boundary in both representations; collections of other groups in between); non-trivial = at least one overwriting put or re-added id",
        "nontrivial": "rw",
        "modelled": CORE_MODELLED,
    },
    "C04": {
        "quick": [("wrap", 12, 0), ("gc", 250, 120), ("cycle", 28, 40), ("ser", 16, 60), ("fork", 30, 80)],
        "thorough": [("wrap", 120, 0), ("gc", 4000, 300), ("cycle", 140, 400), ("alloc", 1000, 200), ("ser", 200, 120), ("fork", 500, 160)],
        "rule": "histories with add of present ids (members of live groups) and re-add of collected ids, explicitly and through next_id, also on reloaded graphs and on clones (ids collected before the save / the clone); non-trivial = at least one re-add of an id that was present earlier",
        "nontrivial": "readds",
        "modelled": CORE_MODELLED,
    },
    "C05": {
        "quick": [("wrap", 12, 0), ("alloc", 300, 120), ("gc", 100, 120), ("fork", 150, 80), ("merge", 150, 0), ("mergemix", 150, 0), ("script", 60, 12), ("scriptfault", 150, 6), ("ser", 30, 60), ("joinser", 40, 12)],
        "thorough": [("wrap", 120, 0), ("joinser", 1000, 16), ("scriptfault", 3000, 8), ("alloc", 4000, 300), ("gc", 1000, 300), ("cycle", 140, 400), ("fork", 3000, 160), ("merge", 4000, 0), ("mergemix", 4000, 0), ("script", 1500, 16), ("ser", 300, 120)],
        "rule": "allocator-heavy histories (explicit add ahead of and behind the position, collections freeing lower ids) and the fork profile (clones taken after a random prefix / after everything was read and collected / after allocator calls only / at once, then next_id on both copies), and reloaded graphs (the allocator restarts: the ids it hands out must still be absent); non-trivial = at least two next_id calls",
        "nontrivial": "nextids",
        "modelled": CORE_MODELLED,
    },
    "C06": {
        "quick": [("wrap", 12, 0), ("cycle", 42, 60), ("limits", 30, 80), ("fork", 60, 80), ("ser", 24, 60)],
        "thorough": [("wrap", 120, 0), ("cycle", 560, 1500), ("cycle", 2, 9000), ("limits", 300, 200), ("fork", 1500, 160), ("ser", 300, 120)],   # ("cycle", 2, 9000): one history of 72 000 cycles (a 16-bit counter would wrap)
        "rule": "create-put-read cycles over a rotating id set with k = 0..13 long-lived groups, four orders of put/bind/add per cycle; non-trivial = at least 15 collections in one history (the 14 slots have wrapped around)",
        "nontrivial": "cycles",
        "modelled": CORE_MODELLED,
    },
    "C19": {
        "quick": [("gc", 120, 100), ("alloc", 80, 100), ("limits", 30, 60), ("slice", 60, 30), ("merge", 60, 0), ("mergebroken", 60, 0), ("script", 40, 12)],
        "thorough": [("gc", 1500, 300), ("alloc", 1000, 300), ("limits", 300, 150), ("cycle", 56, 200), ("slice", 1500, 50), ("merge", 2000, 0), ("mergebroken", 2000, 0), ("script", 1000, 16)],
        "rule": "every history (core calls, and slices / merges followed by reads that reveal the grouping of what they built) is executed under its own configuration, under three larger configurations (N up to 16, capacity up to 256) and a second time in a fresh process (hash containers are seeded per process and per instance); all observation traces must be identical; non-trivial = at least one next_id or collection",
        "nontrivial": "any",
        "modelled": CORE_MODELLED,
    },
}


PURE_MODELLED = ["modelled, not verified: Rust slice indexing semantics (start <= end <= len; inclusive end of usize::MAX overflows), hex::decode, {:02X} formatting, usize::from_str, char handling of str"]

PROPS["C15"] = {
    "quick": [("hex15", 60, 12)],
    "thorough": [("hex15", 30000, 18)],
    "deep": [("hex15", 4000, 14)],
    "pure": True,
    "rule": "exhaustive small scope: every length 0..=12 (thorough 18) x {from_vec, heap, inline with zero / 0xFF / counting padding} x every index 0..len+2 and usize::MAX(-1) x every (start,end) of the six range kinds over the same set, x all pairs for ==, plus boundary and seeded random 64-bit patterns and random byte strings, the narrower From conversions (8/16/32-bit patterns incl. f32 NaN payloads), to_bool/is_empty on every representation, and from_str_bytes/to_utf8 on boundary code points of every encoded width, byte strings that are almost UTF-8 (overlong forms, surrogates, beyond U+10FFFF, truncated, stray continuation bytes) and random texts with one byte damaged; each line also carries the answer of the real byte slice; distinct_nontrivial = distinct operation lines executed",
    "modelled": PURE_MODELLED,
}
PROPS["C16"] = {
    "quick": [("concat16", 0, 12)],
    "thorough": [("concat16", 0, 24)],
    "deep": [("concat16", 0, 17)],
    "pure": True,
    "model_variants": ["--concat-repaired"],
    "rule": "exhaustive: every pair of lengths 0..=12 (thorough 24) in every combination of the representations (from_vec, heap, inline with three paddings); distinct_nontrivial = distinct concat lines executed",
    "modelled": PURE_MODELLED,
    "partial": ["Props.C16.concat_partial (the code as found satisfies the law only outside the defect class; the full law is proved for concatRepaired and refuted for concatAsFound)"],
}
PROPS["C17"] = {
    "quick": [("label17", 600, 3)],
    "thorough": [("label17", 200000, 4)],
    "deep": [("label17", 40000, 3)],
    "pure": True,
    "rule": "all strings of length 0..=3 (thorough 4) over a 14-character alphabet (ASCII letters/digits, + -, alpha, rho, nu, e-acute, a 4-byte character, blank), seeded random strings up to length 10, index texts on both sides of every boundary, canonical label values (Greek, Alpha boundaries, random Str of 2..8) with print-parse and kid() lookups on a real graph; distinct_nontrivial = distinct lines executed",
    "modelled": PURE_MODELLED,
}


SER_MODELLED = CORE_MODELLED + ["modelled, not verified: bincode 1.3 wire format (fixint LE, u64 lengths, u32 variant tags, UTF-8 chars), serde derive layout, the serde impls of emap/micromap/microstack; the real image is compared with the model's encoding byte for byte on every sampled graph"]
PROPS["C08"] = {
    "quick": [("ser", 120, 90)],
    "thorough": [("ser", 2500, 240), ("serall", 200, 120)],
    "rule": "graphs out of gc/rw histories (after collections, stale slots, heap and inline data with padding, unread and read data, all label variants with 1-4 byte characters), N in {1,2,4,16}, capacity 3..64; save, reload, then the same continuation on the original and the reloaded graph and different continuations with the other handle observed; non-trivial = at least one collection in the history",
    "nontrivial": "collections",
    "modelled": SER_MODELLED,
}
PROPS["C09"] = {
    "quick": [("ser", 80, 90), ("joinser", 60, 12)],
    "thorough": [("serall", 600, 160), ("ser", 1000, 240), ("joinser", 800, 16)],
    "rule": "for each sampled graph the real load() is called on prefixes of the real image: quick = the first and last 64 cut points and every 7th in between, thorough (serall) = every cut point; evaluations counts cut points; non-trivial = a history whose graph holds at least one collection-surviving state (>= 5 judged calls)",
    "nontrivial": "any5",
    "modelled": SER_MODELLED,
}
PROPS["C10"] = {
    "quick": [("fork", 250, 120), ("joinser", 40, 12)],
    "thorough": [("fork", 5000, 300), ("joinser", 1000, 16)],
    "rule": "prefix from gc/alloc/cycle profiles (or: everything read and collected first; allocator calls only; nothing), clone, then inspect of every present vertex and slices on both copies (raw slot reads through dangling edges included) and the internal snapshots of both (hook) which must be equal, then (A) the same calls on both copies (next_id included), (B) different calls on the two copies with the other copy observed after every call, drain of both; non-trivial = at least one collection",
    "nontrivial": "collections",
    "modelled": CORE_MODELLED + ["PARTIAL: the deep-copy behaviour of the containers' Clone impls lives in the Rust runtime and is decided by the correspondence only"],
    "partial": ["Props.C10.same_future_partial (the pure model cannot express aliasing; independence is decided by the differential run)"],
}


RENDER_MODELLED = CORE_MODELLED + ["modelled, not verified: xml-builder's rendering, the format strings of dot.rs/debug.rs/inspect.rs, itertools::sorted, the derived Ord of Label; the real texts are parsed back into records and compared structurally with the model's documents (exact text equality is recorded only)"]
PROPS["C18"] = {
    "quick": [("render", 200, 80), ("joinser", 40, 12)],
    "thorough": [("render", 12000, 160), ("joinser", 1500, 16)],
    "rule": "graphs out of bind-heavy histories (after collections, never-added slots, re-added ids, both Hex representations, empty data, labels of all three variants), exported three times per history, plus a twin graph with the same content built differently (larger capacity, reverse add/bind order, data never read) whose texts must be identical; non-trivial = a history with at least one collection",
    "nontrivial": "collections",
    "modelled": RENDER_MODELLED,
}
PROPS["C20"] = {
    "quick": [("render", 200, 80), ("joinser", 40, 12)],
    "thorough": [("render", 12000, 160), ("joinser", 1500, 16)],
    "rule": "as C18; inspect() and v_print() of every present vertex, Debug and Display of the graph; cycles, diamonds and self-reaching vertices occur by random binding among <= 20 ids (the count of inspect texts with ellipsis marks is reported); a missing answer (abort, stack overflow, time-out) is attributed to the call; non-trivial = a history with at least one collection",
    "nontrivial": "collections",
    "modelled": RENDER_MODELLED,
}


ALGO_MODELLED = CORE_MODELLED + ["modelled, not verified: the iteration order of HashSet/HashMap (the closure theorem holds for every drain order; the mapping table is only looked up), anyhow error texts (the ids after 'missed:' are extracted)"]
PROPS["C11"] = {
    "quick": [("merge", 400, 0), ("mergemix", 200, 0)],
    "thorough": [("merge", 60000, 0), ("mergemix", 10000, 0)],
    "rule": "pairs of random rooted labelled trees (1..7 vertices each, 1..4 labels so that paths overlap, random data placement in both Hex representations, random injections of ids into the capacity, some data of the left tree already read), every choice of `left`; observe before and after, then every present vertex of the left graph is read (drain) and compared with the reference run of the same algorithm; non-trivial = a history whose merge created or matched at least one vertex (>= 5 judged calls)",
    "nontrivial": "any5",
    "modelled": ALGO_MODELLED,
    "partial": [],
}
PROPS["C12"] = {
    "quick": [("mergebroken", 400, 0), ("merge", 100, 0)],
    "thorough": [("mergebroken", 50000, 0), ("merge", 10000, 0)],
    "rule": "right graphs made of a tree plus an isolated vertex / a detached two-vertex sub-tree / an isolated vertex with data / a `right` that is not the root; every left tree and `left`; Ok is accepted only if every present vertex of the right graph is reachable from `right`, on Err the named ids must be exactly the unreachable ones; non-trivial = >= 5 judged calls",
    "nontrivial": "any5",
    "modelled": ALGO_MODELLED,
}
PROPS["C13"] = {
    "quick": [("slice", 200, 40), ("joinser", 40, 12)],
    "thorough": [("slice", 25000, 60), ("joinser", 1500, 16)],
    "rule": "digraphs of 2..14 vertices built through real calls (cycles, shared targets, parallel labels up to N = 16), four slices per graph from random start vertices with random rejection tables (edges rejected on one path and accepted on another included); the sliced graph and the source are observed afterwards; non-trivial = a history with >= 5 judged calls; the number of slices whose kept part contains a back edge is reported",
    "nontrivial": "any5",
    "modelled": ALGO_MODELLED,
}


PROPS["C14"] = {
    "quick": [("script", 300, 12), ("scriptfault", 500, 6)],
    "thorough": [("script", 40000, 20), ("scriptfault", 60000, 8)],
    "rule": "abstract programs of ADD/BIND/PUT over literal ids and $variables, valid against the reference, rendered with random legal formatting (Unicode white space and newlines around commands and arguments, comments with structural characters inside, blanks before '(', optional nu prefix, hex digits in random case with dashes/blanks/newlines between them); the text is deployed on one graph, the same calls are issued directly on a second one, both are observed, compared and drained; plus single-fault corruptions (one character deleted / inserted / replaced) classified by the model's parser; non-trivial = a history with >= 5 judged calls",
    "nontrivial": "any5",
    "modelled": CORE_MODELLED + ["modelled, not verified: the regex crate's semantics for the four patterns of script.rs (hand-written recognisers), str::trim (White_Space table), str::split, usize::from_str, u8::from_str_radix, HashMap as the variable table, anyhow's context text (the command number is extracted)"],
}


PROPS["C07"] = {
    "asan": True,
    "quick": [("abuse", 240, 100), ("join", 150, 10), ("gc", 80, 100), ("limits", 30, 80), ("slice", 40, 30), ("merge", 60, 0), ("ser", 20, 60), ("render", 30, 40), ("script", 150, 12), ("scriptfault", 100, 6), ("label17", 300, 3), ("hex15", 10, 9)],
    "thorough": [("abuse", 6000, 250), ("join", 4000, 14), ("gc", 1500, 250), ("limits", 300, 150), ("cycle", 56, 300), ("slice", 800, 50), ("merge", 2000, 0), ("mergebroken", 1000, 0), ("ser", 300, 120), ("render", 500, 80), ("fork", 500, 150), ("script", 1000, 12), ("scriptfault", 2000, 6)],
    "rule": "every operation file is executed by a harness built with AddressSanitizer (debug assertions on): valid profiles and the abuse profile (ids cap, cap+1, cap+1000, usize::MAX; N+1 labels; groups driven to 17-19 members; a 15th-17th group; calls on absent vertices; bind v v); per call the outcome (ok / panic) and the observations must equal the model's; after the first panic of a handle the harness keeps executing calls on it (soak mode) and the model follows it with the total step stepT of Core/Total.lean (the state the panic left behind), so every later call is compared too, and the internal snapshot of the hook at the end of the history is compared as latent information; any sanitizer report, abort or signal is a violation with the operation file as replay; non-trivial = a history with >= 5 judged calls",
    "nontrivial": "any5",
    "modelled": CORE_MODELLED + ["PARTIAL: the unsafe code of emap/micromap/microstack and the allocator are examined under AddressSanitizer on the generated inputs, not proved; MaybeUninit::assume_init in microstack::Stack::new (language-level UB that ASan does not see) is recorded as an observation about the dependency"],
    "partial": ["memory safety of the containers' unsafe code is outside what a Lean model can exhibit: examined under ASan, not proved"],
}


def nontrivial(prop, h):
    first, last, coll, readds, overw, nextids, judged = h[:7]
    kind = PROPS[prop].get("nontrivial", "any")
    if kind == "collections":
        return coll >= 1
    if kind == "rw":
        return overw >= 1 or readds >= 1
    if kind == "readds":
        return readds >= 1
    if kind == "nextids":
        return nextids >= 2
    if kind == "cycles":
        return coll >= 15
    if kind == "any5":
        return judged >= 5
    return judged >= 5 and (coll >= 1 or nextids >= 1)


def variants(prop, ops, seed):
    """implementation-against-implementation variants of an operation file"""
    if prop != "C19":
        return []
    out = []
    nxt = lambda n: n + 1 if n < 17 else 33 if n < 33 else 64      # the harness has N = 1..17, 33, 64
    for name, (fn, fc) in {"n16c256": (lambda n: max(16, n), lambda c: max(256, c)),
                           "nplus": (nxt, lambda c: c + 3),
                           "bigcap": (lambda n: n, lambda c: 2 * c + 1),
                           "again": (lambda n: n, lambda c: c)}.items():
        v = []
        for l in ops:
            m = re.fullmatch(r"new (g\d+) (\d+) (\d+)", l.strip())
            if m:
                v.append(f"new {m.group(1)} {fn(int(m.group(2)))} {fc(int(m.group(3)))}")
            else:
                v.append(l)
        out.append((name, v))
    return out
