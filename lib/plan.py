"""Per-property exploration plans: which generator profiles run in which tier, what makes a history non-trivial,
and which implementation-against-implementation variants are compared."""
import re

CORE_MODELLED = [
    "modelled, not verified: emap/micromap/microstack observable behaviour (incl. panic points), Hex clone",
]

# (profile, histories, calls per history)
PROPS = {
    "C01": {
        "quick": [("gc", 250, 120), ("limits", 60, 80), ("cycle", 28, 40)],
        "thorough": [("gc", 4000, 300), ("limits", 600, 200), ("cycle", 140, 400), ("rw", 1000, 200), ("alloc", 1000, 200)],
        "rule": "seeded random histories over add/bind/put/data/kid/kids/next_id with drain epilogue, filtered by the proved-equivalent validity predicate okStepB; distinct = by hash of the operation lines; non-trivial = at least one call after which keys() shrank (a collection)",
        "nontrivial": "collections",
        "modelled": CORE_MODELLED,
    },
    "C02": {
        "quick": [("gc", 250, 120), ("limits", 90, 80), ("cycle", 28, 40)],
        "thorough": [("gc", 4000, 300), ("limits", 900, 200), ("cycle", 140, 400)],
        "rule": "as C01 plus the limits profile (groups of 14-16 members, 13-14 live groups, N labels); non-trivial = at least one collection",
        "nontrivial": "collections",
        "modelled": CORE_MODELLED,
    },
    "C03": {
        "quick": [("rw", 300, 120), ("gc", 100, 120)],
        "thorough": [("rw", 4000, 300), ("gc", 1000, 300)],
        "rule": "read/write-heavy histories (label pool of Alpha, one-character and text labels; overwrites of existing labels; data lengths around the 8-byte boundary in both representations; collections of other groups in between); non-trivial = at least one overwriting put or re-added id",
        "nontrivial": "rw",
        "modelled": CORE_MODELLED,
    },
    "C04": {
        "quick": [("gc", 250, 120), ("cycle", 28, 40)],
        "thorough": [("gc", 4000, 300), ("cycle", 140, 400), ("alloc", 1000, 200)],
        "rule": "histories with add of present ids (members of live groups) and re-add of collected ids, explicitly and through next_id; non-trivial = at least one re-add of an id that was present earlier",
        "nontrivial": "readds",
        "modelled": CORE_MODELLED,
    },
    "C05": {
        "quick": [("alloc", 300, 120), ("gc", 100, 120)],
        "thorough": [("alloc", 4000, 300), ("gc", 1000, 300), ("cycle", 140, 400)],
        "rule": "allocator-heavy histories (explicit add ahead of and behind the position, collections freeing lower ids); non-trivial = at least two next_id calls",
        "nontrivial": "nextids",
        "modelled": CORE_MODELLED,
    },
    "C06": {
        "quick": [("cycle", 42, 60), ("limits", 30, 80)],
        "thorough": [("cycle", 280, 600), ("limits", 300, 200)],
        "rule": "create-put-read cycles over a rotating id set with k = 0..13 long-lived groups, four orders of put/bind/add per cycle; non-trivial = at least 15 collections in one history (the 14 slots have wrapped around)",
        "nontrivial": "cycles",
        "modelled": CORE_MODELLED,
    },
    "C19": {
        "quick": [("gc", 120, 100), ("alloc", 80, 100), ("limits", 30, 60)],
        "thorough": [("gc", 1500, 300), ("alloc", 1000, 300), ("limits", 300, 150), ("cycle", 56, 200)],
        "rule": "every history is executed under its own configuration, under three larger configurations (N up to 16, capacity up to 256) and a second time in a fresh process; all observation traces must be identical; non-trivial = at least one next_id or collection",
        "nontrivial": "any",
        "modelled": CORE_MODELLED,
    },
}


PURE_MODELLED = ["modelled, not verified: Rust slice indexing semantics (start <= end <= len; inclusive end of usize::MAX overflows), hex::decode, {:02X} formatting, usize::from_str, char handling of str"]

PROPS["C15"] = {
    "quick": [("hex15", 60, 12)],
    "thorough": [("hex15", 3000, 16)],
    "pure": True,
    "rule": "exhaustive small scope: every length 0..=12 (thorough 16) x {from_vec, heap, inline with zero / 0xFF / counting padding} x every index 0..len+2 and usize::MAX(-1) x every (start,end) of the six range kinds over the same set, x all pairs for ==, plus boundary and seeded random 64-bit patterns and random byte strings; each line also carries the answer of the real byte slice; distinct_nontrivial = distinct operation lines executed",
    "modelled": PURE_MODELLED,
}
PROPS["C16"] = {
    "quick": [("concat16", 0, 12)],
    "thorough": [("concat16", 0, 18)],
    "pure": True,
    "model_variants": ["--concat-repaired"],
    "rule": "exhaustive: every pair of lengths 0..=12 (thorough 18) in every combination of the representations (from_vec, heap, inline with three paddings); distinct_nontrivial = distinct concat lines executed",
    "modelled": PURE_MODELLED,
    "partial": ["Props.C16.concat_partial (the code as found satisfies the law only outside the defect class; the full law is proved for concatRepaired and refuted for concatAsFound)"],
}
PROPS["C17"] = {
    "quick": [("label17", 600, 3)],
    "thorough": [("label17", 20000, 4)],
    "pure": True,
    "rule": "all strings of length 0..=3 (thorough 4) over a 14-character alphabet (ASCII letters/digits, + -, alpha, rho, nu, e-acute, a 4-byte character, blank), seeded random strings up to length 10, index texts on both sides of every boundary, canonical label values (Greek, Alpha boundaries, random Str of 2..8) with print-parse and kid() lookups on a real graph; distinct_nontrivial = distinct lines executed",
    "modelled": PURE_MODELLED,
}


def nontrivial(prop, h):
    first, last, coll, readds, overw, nextids, judged = h[:7]
    kind = PROPS[prop].get("nontrivial", "any")
    if kind == "collections":
        return coll >= 1
    if kind == "rw":
        return overw >= 1 or readds >= 1
    if kind == "readds":
        return readds >= 1
    if kind == "nextids":
        return nextids >= 2
    if kind == "cycles":
        return coll >= 15
    return judged >= 5 and (coll >= 1 or nextids >= 1)


def variants(prop, ops, seed):
    """implementation-against-implementation variants of an operation file"""
    if prop != "C19":
        return []
    out = []
    for name, (fn, fc) in {"n16c256": (lambda n: 16, lambda c: 256),
                           "nplus": (lambda n: min(16, n + 1), lambda c: c + 3),
                           "bigcap": (lambda n: n, lambda c: 2 * c + 1),
                           "again": (lambda n: n, lambda c: c)}.items():
        v = []
        for l in ops:
            m = re.fullmatch(r"new (g\d+) (\d+) (\d+)", l.strip())
            if m:
                v.append(f"new {m.group(1)} {fn(int(m.group(2)))} {fc(int(m.group(3)))}")
            else:
                v.append(l)
        out.append((name, v))
    return out
