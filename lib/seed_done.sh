#!/bin/bash
# lib/seed_done.sh <name> <property> [other properties]: confirm the seeded change left in /tmp/seed/<name>, run the quick
# checks against that worktree, keep it under seeded/<name>/ and remove the worktree with its build output
name=$1; shift
wt=/tmp/seed/$name
mkdir -p /tmp/ts
python3 /verif/lib/try_seed.py $wt $name "$@" > /tmp/ts/$name.log 2>&1
rc=$?
tag=$(python3 -c "import hashlib,sys;print(hashlib.sha1(sys.argv[1].encode()).hexdigest()[:8])" $wt)
if [ $rc -eq 0 ]; then
  git -C /repo worktree remove --force $wt
  rm -rf /verif/.work/harness_$tag /verif/.work/alt_$tag /tmp/seed/$name.diff
fi
grep -E "^(C[0-9]+ exit|kept in|NOT CONFIRMED|patch does not|worktree does not)" /tmp/ts/$name.log | cut -c1-330
