#!/bin/bash
# lib/recheck_harmless.sh <name> [<property> ...]: apply harmless/<name>/patch.diff (a behaviour-preserving rewrite) in a scratch
# worktree and run the quick checks against it (VERIF_REPO), four at a time; no check may alarm. Prints one line per check.
name=$1; shift
props=${@:-C01 C02 C03 C04 C05 C06 C07 C08 C09 C10 C11 C12 C13 C14 C15 C16 C17 C18 C19 C20}
wt=/tmp/rs/h_$name
mkdir -p /tmp/rs /tmp/ts
git -C /repo worktree add --detach $wt HEAD -q || exit 2
git -C $wt apply /verif/harmless/$name/patch.diff || exit 2
tag=$(python3 -c "import hashlib,sys;print(hashlib.sha1(sys.argv[1].encode()).hexdigest()[:8])" $wt)
VERIF_REPO=$wt /verif/check C03 --tier quick > /tmp/ts/h_${name}_warm.out 2>&1   # builds the private harness copy once
echo $props | tr ' ' '\n' | xargs -P 4 -I{} sh -c "VERIF_REPO=$wt /verif/check {} --tier quick > /tmp/ts/h_${name}_{}.out 2>&1; echo rc=\$? >> /tmp/ts/h_${name}_{}.out"
for p in $props; do echo "$p $(grep -E '^(VIOLATION|rc=)' /tmp/ts/h_${name}_$p.out | tr '\n' ' ') $(grep -E "^$p \[" /tmp/ts/h_${name}_$p.out | sed 's/.*rejections, //')"; done
git -C /repo worktree remove --force $wt
rm -rf /verif/.work/harness_$tag /verif/.work/alt_$tag
