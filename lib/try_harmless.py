#!/usr/bin/env python3
"""Run every quick check against a behaviour-preserving rewrite of /repo written by a sub-agent: no check may alarm.

  lib/try_harmless.py <worktree> <name> [<property> ...]      (default: all twenty)

1. in the worktree (which holds the rewrite): the crate builds with and without the `verif` feature, the unit tests
   and doc-tests pass;
2. the patch is applied to /repo, the quick checks run, /repo is restored;
3. /verif/harmless/<name>/ gets patch.diff, NOTES.md and meta.json (what was run, exit status and lines per check).
"""
import sys, os, subprocess, json, shutil, time

ROOT = os.path.dirname(os.path.dirname(os.path.abspath(__file__)))
ENV = dict(os.environ, CARGO_NET_OFFLINE="true")
ALL = [f"C{i:02d}" for i in range(1, 21)]


def sh(cmd, cwd, timeout=7200):
    p = subprocess.run(cmd, cwd=cwd, shell=True, stdout=subprocess.PIPE, stderr=subprocess.STDOUT, text=True, timeout=timeout, env=ENV)
    return p.returncode, p.stdout


def main():
    wt, name, *props = sys.argv[1:]
    props = props or ALL
    meta = {"kind": "behaviour-preserving rewrite", "confirmed": {}, "checks": {}}
    rc, out = sh("cargo build --offline --features verif 2>&1 | tail -1", wt)
    meta["confirmed"]["build_with_hooks"] = out.strip()
    rc, out = sh("cargo test --offline --lib 2>&1 | grep -E '^test result'", wt)
    meta["confirmed"]["unit_tests"] = out.strip()
    rc, out = sh("cargo test --offline --doc 2>&1 | grep -E '^test result'", wt)
    meta["confirmed"]["doc_tests"] = out.strip()
    ok = "94 passed; 0 failed" in meta["confirmed"]["unit_tests"] and "0 failed" in meta["confirmed"]["doc_tests"] and "Finished" in meta["confirmed"]["build_with_hooks"]
    print("confirmed:", json.dumps(meta["confirmed"], indent=1))
    if not ok:
        print("NOT CONFIRMED")
        return 1
    patch = os.path.join(wt, "patch.diff")
    sh(f"git diff -- src > {patch}", wt)
    rc, out = sh(f"git apply --check {patch} && git apply {patch}", "/repo")
    if rc != 0:
        print("patch does not apply to /repo:", out)
        return 1
    rc, out = sh("git diff --stat -- src | tail -1", "/repo")
    meta["diffstat"] = out.strip()
    try:
        for p in props:
            t0 = time.time()
            rc, out = sh(f"./check {p} --tier quick", ROOT)
            lines = [l for l in out.split("\n") if l.startswith("VIOLATION") or l.startswith("KNOWN")]
            summary = [l for l in out.split("\n") if l.startswith(p + " [")]
            meta["checks"][p] = {"exit": rc, "lines": lines, "summary": summary, "wall_s": round(time.time() - t0, 1)}
            print(p, "exit", rc, [l[:160] for l in lines if l.startswith("VIOLATION")], summary)
    finally:
        sh("git checkout -- . && git status --short", "/repo")
    meta["alarms"] = [p for p, r in meta["checks"].items() if r["exit"] != 0]
    d = os.path.join(ROOT, "harmless", name)
    os.makedirs(d, exist_ok=True)
    shutil.copy(patch, os.path.join(d, "patch.diff"))
    if os.path.exists(os.path.join(wt, "NOTES.md")):
        shutil.copy(os.path.join(wt, "NOTES.md"), os.path.join(d, "NOTES.md"))
    json.dump(meta, open(os.path.join(d, "meta.json"), "w"), indent=1, ensure_ascii=False)
    print("kept in", d, "alarms:", meta["alarms"])
    return 0


if __name__ == "__main__":
    sys.exit(main())
