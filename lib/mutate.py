#!/usr/bin/env python3
"""Mechanical mutation run (validation of the checks, not part of them).

  lib/mutate.py <workers> <max_mutants> [<seed>]

Enumerates small syntactic mutations of /repo/src (outside tests, comments and the hook file), samples them with a
fixed seed, and for each one, in a scratch worktree under /tmp/mut (never in /repo):
  1. `cargo test --offline --lib`: does not compile -> stillborn; a unit test fails -> killed by the existing tests;
  2. otherwise the quick checks of the properties that speak about the mutated file run against the scratch copy
     (VERIF_REPO=<worktree>), stopping at the first check that reports a violation;
  3. a mutant that passes the tests and every relevant check is a *survivor*: either equivalent (no observable change)
     or a gap in the checks - to be looked at by hand.
Results: mutation/results.jsonl (one line per mutant) and mutation/RESULTS.md.
"""
import sys, os, re, json, random, subprocess, shutil, time, threading, queue

ROOT = os.path.dirname(os.path.dirname(os.path.abspath(__file__)))
OUT = os.path.join(ROOT, "mutation")
ENV = dict(os.environ, CARGO_NET_OFFLINE="true")
BASE = "/tmp/mut"

RELEVANT = {
    "ops.rs": ["C02", "C01", "C03", "C04", "C06", "C07", "C19", "C10", "C05"],
    "next.rs": ["C05", "C14", "C11", "C19", "C07"],
    "misc.rs": ["C02", "C01", "C12", "C05"],
    "ctors.rs": ["C02", "C06", "C07", "C19", "C05"],
    "clone.rs": ["C10", "C05"],
    "merge.rs": ["C11", "C12", "C01", "C05", "C19"],
    "slice.rs": ["C13", "C19", "C10"],
    "script.rs": ["C14", "C07", "C05"],
    "serialization.rs": ["C08", "C09"],
    "hex.rs": ["C15", "C16", "C03", "C18", "C14"],
    "label.rs": ["C17", "C14", "C18", "C08"],
    "xml.rs": ["C18"],
    "dot.rs": ["C18"],
    "debug.rs": ["C20"],
    "inspect.rs": ["C20"],
    "lib.rs": ["C02", "C06", "C07", "C08", "C15", "C16"],
}

SUBS = [
    (r" == ", " != "), (r" != ", " == "),
    (r" < ", " <= "), (r" <= ", " < "), (r" > ", " >= "), (r" >= ", " > "),
    (r" && ", " || "), (r" \|\| ", " && "),
    (r" \+ 1\b", " + 2"), (r" \+ 1\b", ""), (r" - 1\b", ""), (r" \+= 1\b", " += 2"), (r" -= 1\b", " -= 2"),
    (r"\btrue\b", "false"), (r"\bfalse\b", "true"),
    (r"BRANCH_STATIC", "BRANCH_NONE"), (r"BRANCH_NONE", "BRANCH_STATIC"),
    (r"Persistence::Stored", "Persistence::Taken"), (r"Persistence::Taken", "Persistence::Stored"),
    (r"Persistence::Empty", "Persistence::Taken"),
    (r"\.is_none\(\)", ".is_some()"), (r"\.is_some\(\)", ".is_none()"),
    (r"\.is_empty\(\)", ".len() == 1"),
    (r"\b0\b", "1"), (r"\b1\b", "0"), (r"\b8\b", "7"), (r"\b16\b", "15"),
    (r"\.skip\(1\)", ".skip(0)"), (r"\[\.\.\*size\]", "[..]"), (r"\.\.=", ".."),
    # second run
    (r" \+ ", " - "), (r" - ", " + "), (r"\bcontinue;", "break;"), (r"\bbreak;", "continue;"), (r"\breturn;", "/* no return */"),
    (r"if !", "if "), (r"\(!", "("), (r"\.min\(", ".max("), (r"\.max\(", ".min("),
    (r"\.filter\(\|[^|]*\| [^()]*(\([^()]*\)[^()]*)*\)", ""), (r"\.sorted_by_key\(\|[^|]*\| [^()]*(\([^()]*\)[^()]*)*\)", ""),
    (r"\.sorted\(\)", ""), (r"\.rev\(\)", ""), (r"\.clone\(\)", ""), (r"\b2\b", "3"), (r"\b14\b", "13"), (r"\b256\b", "255"),
    (r"Label::Alpha", "Label::Greek"), (r"\.0\b", ".1"), (r"\.1\b", ".0"), (r"&&", "&& !"), (r"\.push\(", ".insert(0, "),
    (r"\*size\b", "HEX_SIZE"), (r"\bleft\b", "right"), (r"\bv1\b", "v2"), (r"\bv2\b", "v1"),
]


def sh(cmd, cwd, timeout=1800, env=None):
    try:
        p = subprocess.run(cmd, cwd=cwd, shell=True, stdout=subprocess.PIPE, stderr=subprocess.STDOUT, text=True, timeout=timeout, env=env or ENV)
        return p.returncode, p.stdout
    except subprocess.TimeoutExpired:
        return 124, "timeout"


def code_lines(path):
    """(index, line) of mutable lines: before the first test item, not a comment, not an attribute, not a log call"""
    lines = open(path).read().split("\n")
    out = []
    for i, l in enumerate(lines):
        s = l.strip()
        if s.startswith("#[test]") or s.startswith("#[cfg(test)]"):
            break
        if not s or s.startswith("//") or s.startswith("#[") or s.startswith("use ") or s.startswith("#!["):
            continue
        if re.match(r"(trace|debug|info|warn)!\(", s):
            continue
        out.append((i, l))
    return lines, out


def enumerate_mutants():
    muts = []
    src = "/repo/src"
    for f in sorted(os.listdir(src)):
        if not f.endswith(".rs") or f == "verif.rs" or f not in RELEVANT:
            continue
        lines, cl = code_lines(os.path.join(src, f))
        in_macro = False
        for i, l in cl:
            code = l.split("//")[0]
            if '"' in code and ("anyhow!" in code or "format!" in code or "panic!" in code or "context" in code):
                continue   # message texts
            for pat, rep in SUBS:
                for m in re.finditer(pat, code):
                    new = code[:m.start()] + rep + code[m.end():]
                    if new != code:
                        muts.append({"file": f, "line": i + 1, "old": l, "new": new + l[len(code):], "op": f"{pat} -> {rep}"})
            # statement deletion: a simple statement on one line
            s = code.strip()
            if s.endswith(";") and not s.startswith("let ") and not s.startswith("return") and "(" in s and s.count("(") == s.count(")"):
                muts.append({"file": f, "line": i + 1, "old": l, "new": l[:len(l) - len(l.lstrip())] + "/* deleted */", "op": "delete statement"})
            elif re.match(r"\w[\w\.]* = .*;$", s):
                muts.append({"file": f, "line": i + 1, "old": l, "new": l[:len(l) - len(l.lstrip())] + "/* deleted */", "op": "delete assignment"})
    return muts


def worker(k, q, res_lock, results_path):
    wd = os.path.join(BASE, f"w{k}")
    while True:
        try:
            idx, m = q.get_nowait()
        except queue.Empty:
            return
        t0 = time.time()
        path = os.path.join(wd, "src", m["file"])
        lines = open(path).read().split("\n")
        rec = dict(m, id=idx)
        if lines[m["line"] - 1] != m["old"]:
            rec["status"] = "skipped (line moved)"
        else:
            lines[m["line"] - 1] = m["new"]
            open(path, "w").write("\n".join(lines))
            rc, out = sh("cargo test --offline --lib 2>&1 | tail -40", wd, timeout=900)
            if "error: could not compile" in out or "error[" in out or "error:" in out and "test result" not in out:
                rec["status"] = "stillborn"
            elif "test result: ok" in out and " 0 failed" in out:
                rec["status"] = "survivor"
                rec["checks"] = {}
                env = dict(ENV, VERIF_REPO=wd)
                for p in RELEVANT[m["file"]]:
                    rc2, out2 = sh(f"./check {p} --tier quick", ROOT, timeout=1800, env=env)
                    line = [l for l in out2.split("\n") if l.startswith("VIOLATION")]
                    rec["checks"][p] = rc2
                    if rc2 != 0 and line:
                        rec["status"] = "detected"
                        rec["detected_by"] = p
                        rec["how"] = "no-failing-input-found" if "no-failing-input-found" in line[0] else "replay"
                        break
            elif "test result: FAILED" in out or "failed" in out or "panicked" in out:
                rec["status"] = "killed by tests"
            elif rc == 124 or out == "timeout":
                rec["status"] = "killed by tests (timeout)"
            else:
                rec["status"] = "unknown: " + out[-200:]
            sh(f"git checkout -- src/{m['file']}", wd)
        rec["wall_s"] = round(time.time() - t0, 1)
        with res_lock:
            open(results_path, "a").write(json.dumps(rec, ensure_ascii=False) + "\n")
            print(idx, m["file"], m["line"], m["op"], "=>", rec["status"], rec.get("detected_by", ""), rec["wall_s"], flush=True)


def summarise(results_path):
    recs = [json.loads(l) for l in open(results_path)]
    by = {}
    for r in recs:
        by.setdefault(r["status"].split(":")[0], []).append(r)
    md = ["# Mechanical mutation run", "",
          f"{len(recs)} mutants of /repo/src (operators: comparison/logic flips, off-by-one, constant and enum swaps, statement deletion), "
          "each tried in a scratch worktree; see lib/mutate.py.", ""]
    for k, v in sorted(by.items()):
        md.append(f"* {k}: {len(v)}")
    md += ["", "## Mutants that pass the 94 unit tests", "", "| file:line | mutation | outcome |", "|---|---|---|"]
    for r in recs:
        if r["status"] in ("detected", "survivor"):
            o = f"detected by {r['detected_by']} ({r['how']})" if r["status"] == "detected" else "**survivor** (checks run: " + ", ".join(r.get("checks", {}).keys()) + ")"
            md.append(f"| {r['file']}:{r['line']} | `{r['old'].strip()[:70]}` → `{r['new'].strip()[:70]}` | {o} |")
    open(os.path.join(OUT, "RESULTS.md"), "w").write("\n".join(md) + "\n")


def main():
    workers = int(sys.argv[1]); maxm = int(sys.argv[2]); seed = int(sys.argv[3]) if len(sys.argv) > 3 else 1
    os.makedirs(OUT, exist_ok=True)
    results_path = os.path.join(OUT, "results.jsonl")
    done = set()
    if os.path.exists(results_path):
        for l in open(results_path):
            r = json.loads(l); done.add((r["file"], r["line"], r["new"]))
    muts = enumerate_mutants()
    random.Random(seed).shuffle(muts)
    muts = [m for m in muts if (m["file"], m["line"], m["new"]) not in done][:maxm]
    print(len(muts), "mutants to try", flush=True)
    os.makedirs(BASE, exist_ok=True)
    for k in range(workers):
        wd = os.path.join(BASE, f"w{k}")
        if not os.path.isdir(wd):
            rc, out = sh(f"git -C /repo worktree add --detach {wd} HEAD -q && cp -r /repo/target {wd}/target", "/")
            assert rc == 0, out
    q = queue.Queue()
    for i, m in enumerate(muts):
        q.put((len(done) + i, m))
    lock = threading.Lock()
    ts = [threading.Thread(target=worker, args=(k, q, lock, results_path)) for k in range(workers)]
    for t in ts: t.start()
    for t in ts: t.join()
    summarise(results_path)


if __name__ == "__main__":
    main()
