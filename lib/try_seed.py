#!/usr/bin/env python3
"""Confirm a seeded change written by a sub-agent and run the checks against it.

  lib/try_seed.py <worktree> <name> <property> [<other properties to run as well> ...]

1. in the worktree (which holds the change): the existing unit tests and doc-tests pass, the demonstration fails;
   with the change stashed the demonstration passes;
2. the patch is applied to /repo, the quick checks of the listed properties run, /repo is restored;
3. /verif/seeded/<name>/ gets patch.diff, the demonstration, NOTES.md and meta.json (what was run, what was seen).
"""
import sys, os, subprocess, json, shutil, re, time

ROOT = os.path.dirname(os.path.dirname(os.path.abspath(__file__)))
ENV = dict(os.environ, CARGO_NET_OFFLINE="true")


def sh(cmd, cwd, timeout=3600):
    p = subprocess.run(cmd, cwd=cwd, shell=True, stdout=subprocess.PIPE, stderr=subprocess.STDOUT, text=True, timeout=timeout, env=ENV)
    return p.returncode, p.stdout


def main():
    wt, name, prop, *others = sys.argv[1:]
    meta = {"breaks_property": prop, "worktree": wt, "ran": [], "confirmed": {}}
    # 1. confirm in the worktree
    rc, out = sh("cargo test --offline --lib 2>&1 | grep -E '^test result'", wt)
    meta["confirmed"]["unit_tests_with_change"] = out.strip()
    rc, out = sh("cargo test --offline --doc 2>&1 | grep -E '^test result'", wt)
    meta["confirmed"]["doc_tests_with_change"] = out.strip()
    rc1, out = sh("cargo test --offline --test seeded_demo 2>&1", wt)
    out = "\n".join([l for l in out.split("\n") if re.search(r"^test result|FAILED|failed|signal|SIGABRT|SIGSEGV|double free|AddressSanitizer", l)][:8])
    meta["confirmed"]["demo_with_change"] = out.strip() + f"\n(exit status {rc1})"
    # (no `git stash`: the stash is shared by all worktrees of a repository)
    tmp = os.path.join(wt, ".seed_tmp.diff")
    sh(f"git diff -- src > {tmp} && git apply -R {tmp}", wt)
    rc2, out = sh("cargo test --offline --test seeded_demo 2>&1", wt)
    out = "\n".join([l for l in out.split("\n") if re.search(r"^test result|FAILED|failed|signal", l)][:8])
    meta["confirmed"]["demo_without_change"] = out.strip() + f"\n(exit status {rc2})"
    sh(f"git apply {tmp} && rm {tmp}", wt)
    ok_suite = "94 passed; 0 failed" in meta["confirmed"]["unit_tests_with_change"] and "0 failed" in meta["confirmed"]["doc_tests_with_change"]
    # a demonstration may also fail by aborting the test process (a sanitizer-free double free, a stack overflow)
    ok_demo = rc1 != 0 and rc2 == 0 and "FAILED" not in meta["confirmed"]["demo_without_change"] and "ok." in meta["confirmed"]["demo_without_change"]
    meta["confirmed"]["ok"] = bool(ok_suite and ok_demo)
    print("confirmed:", json.dumps(meta["confirmed"], indent=1))
    if not (ok_suite and ok_demo):
        print("NOT CONFIRMED - not kept")
        return 1
    # 2. run the checks against it
    patch = os.path.join(wt, "patch.diff")
    sh(f"git diff -- src > {patch}", wt)
    # the checks run against the worktree that holds the change (VERIF_REPO), so /repo itself is never touched and
    # background runs that use /repo are not disturbed; SEED_IN_REPO=1 applies the patch to /repo instead
    in_repo = os.environ.get("SEED_IN_REPO") == "1"
    if in_repo:
        rc, out = sh(f"git apply --check {patch} && git apply {patch}", "/repo")
        if rc != 0:
            print("patch does not apply to /repo:", out)
            return 1
    else:
        rc, out = sh(f"git apply --check -R {patch}", wt)
        if rc != 0:
            print("worktree does not hold the patch:", out)
            return 1
        ENV["VERIF_REPO"] = wt
    results = {}
    try:
        for p in [prop] + others:
            t0 = time.time()
            rc, out = sh(f"./check {p} --tier quick", ROOT)
            line = [l for l in out.split("\n") if l.startswith("VIOLATION") or l.startswith("KNOWN")]
            summary = [l for l in out.split("\n") if l.startswith(p + " [")]
            rep = None
            m = re.search(r"replay=(\S+)", "\n".join(line))
            if m and os.path.exists(m.group(1)):
                r = json.load(open(m.group(1)))
                rep = {"ops": r.get("ops"), "observed": r.get("observed"), "kind": r.get("kind"), "no_longer_checks": r.get("no_longer_checks"), "correspondence": r.get("correspondence")}
            if rep and rep["ops"] and rep["kind"] == "implementation-violates-property" and p == prop:
                open(os.path.join(ROOT, "corpus", f"{p}_{name}.ops"), "w").write("\n".join(rep["ops"]) + "\n")
            results[p] = {"exit": rc, "lines": line, "summary": summary, "replay": rep, "wall_s": round(time.time() - t0, 1)}
            print(p, "exit", rc, line, summary)
    finally:
        if in_repo:
            sh("git checkout -- . && git status --short", "/repo")
        ENV.pop("VERIF_REPO", None)
    meta["checks"] = results
    meta["detected_by"] = [p for p, r in results.items() if r["exit"] != 0]
    # 3. keep
    d = os.path.join(ROOT, "seeded", name)
    os.makedirs(d, exist_ok=True)
    shutil.copy(patch, os.path.join(d, "patch.diff"))
    shutil.copy(os.path.join(wt, "tests", "seeded_demo.rs"), os.path.join(d, "seeded_demo.rs"))
    if os.path.exists(os.path.join(wt, "NOTES.md")):
        shutil.copy(os.path.join(wt, "NOTES.md"), os.path.join(d, "NOTES.md"))
        meta["needs_to_manifest"] = open(os.path.join(wt, "NOTES.md")).read()[:1500]
    meta["ran"] = ["cargo test --offline --lib / --doc / --test seeded_demo in the worktree (with and without the change)",
                   ("git -C /repo apply patch.diff; ./check <property> --tier quick for " + ", ".join([prop] + others) + "; git -C /repo checkout -- ." if in_repo else
                    "VERIF_REPO=<scratch worktree holding the change> ./check <property> --tier quick for " + ", ".join([prop] + others) + " (the harness is rebuilt against that worktree; /repo untouched)")]
    json.dump(meta, open(os.path.join(d, "meta.json"), "w"), indent=1, ensure_ascii=False)
    print("kept in", d, "detected by", meta["detected_by"])
    return 0


if __name__ == "__main__":
    sys.exit(main())
