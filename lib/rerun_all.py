#!/usr/bin/env python3
"""Regression run over all kept seeded changes: lib/rerun_all.py <workers>

Each seeded/<name>/patch.diff is applied in a scratch worktree under /tmp/rs (never in /repo) and the quick check of the
property it breaks runs against that copy (VERIF_REPO). Writes seeded/REGRESSION.md: which check reports it now, and how."""
import sys, os, json, subprocess, threading, queue, time

ROOT = os.path.dirname(os.path.dirname(os.path.abspath(__file__)))
BASE = "/tmp/rs"
ENV = dict(os.environ, CARGO_NET_OFFLINE="true")


def sh(cmd, cwd, env=None, timeout=3600):
    p = subprocess.run(cmd, cwd=cwd, shell=True, stdout=subprocess.PIPE, stderr=subprocess.STDOUT, text=True, timeout=timeout, env=env or ENV)
    return p.returncode, p.stdout


def worker(k, q, lock, results):
    wd = os.path.join(BASE, f"w{k}")
    while True:
        try:
            name, prop = q.get_nowait()
        except queue.Empty:
            return
        t0 = time.time()
        patch = os.path.join(ROOT, "seeded", name, "patch.diff")
        rc, out = sh(f"git checkout -- . && git apply {patch}", wd)
        if rc != 0:
            res = {"name": name, "prop": prop, "status": "patch does not apply", "detail": out[-200:]}
        else:
            rc, out = sh(f"./check {prop} --tier quick", ROOT, env=dict(ENV, VERIF_REPO=wd))
            line = [l for l in out.split("\n") if l.startswith("VIOLATION")]
            how = "not detected" if rc == 0 else ("no-failing-input-found" if line and "no-failing-input-found" in line[0] else "replay")
            res = {"name": name, "prop": prop, "status": how, "wall_s": round(time.time() - t0, 1)}
        sh("git checkout -- .", wd)
        with lock:
            results.append(res)
            print(res, flush=True)


def main():
    workers = int(sys.argv[1])
    os.makedirs(BASE, exist_ok=True)
    for k in range(workers):
        wd = os.path.join(BASE, f"w{k}")
        if not os.path.isdir(wd):
            rc, out = sh(f"git -C /repo worktree add --detach {wd} HEAD -q", "/")
            assert rc == 0, out
    q = queue.Queue()
    for name in sorted(os.listdir(os.path.join(ROOT, "seeded"))):
        m = os.path.join(ROOT, "seeded", name, "meta.json")
        if os.path.exists(m):
            q.put((name, json.load(open(m))["breaks_property"]))
    lock = threading.Lock(); results = []
    ts = [threading.Thread(target=worker, args=(k, q, lock, results)) for k in range(workers)]
    for t in ts: t.start()
    for t in ts: t.join()
    results.sort(key=lambda r: r["name"])
    md = ["# Regression run over the kept seeded changes", "",
          f"{len(results)} changes, each applied in a scratch worktree and checked with the quick check of its property (lib/rerun_all.py).", "",
          f"* reported with a replay: {sum(r['status'] == 'replay' for r in results)}",
          f"* reported as a broken correspondence (no-failing-input-found): {sum(r['status'] == 'no-failing-input-found' for r in results)}",
          f"* not detected: {sum(r['status'] == 'not detected' for r in results)}", "",
          "| change | property | now |", "|---|---|---|"]
    md += [f"| {r['name']} | {r['prop']} | {r['status']} |" for r in results]
    open(os.environ.get("REGRESSION_OUT", os.path.join(ROOT, "seeded", "REGRESSION.md")), "w").write("\n".join(md) + "\n")
    for k in range(workers):
        sh(f"git -C /repo worktree remove --force {os.path.join(BASE, f'w{k}')}", "/")


if __name__ == "__main__":
    main()
