#!/usr/bin/env python3
"""Writes MANIFEST.json from the table below (kept in one place so that it stays valid)."""
import json, os
ROOT = os.path.dirname(os.path.dirname(os.path.abspath(__file__)))
BASE = ("Trusted: Lean 4.33 kernel (thorough tier re-checks the module with leanchecker), axioms propext/Classical.choice/Quot.sound only "
        "(audited per theorem on every run), the Lean compiler for the native driver, the Rust harness and the line protocol, this orchestrator. "
        "The model is hand-written; it is tied to /repo's working tree by the correspondence run of every invocation (same operation lines "
        "executed in-process on the real crate and on the model, observation streams compared line by line), i.e. only on the generated inputs. ")
CONT = "Modelled, not verified: the observable behaviour of emap/micromap/microstack including their panic points. "

CHECKS = {
 "C01": ("proof", "Theorem Props.C01.safety (per call of every valid history of any length, any N, any capacity, on the reachability invariant Reach = Rel + bind-linkage GI + partner invariant PI): a vertex disappears only in a data() call that reads an unread datum, is linked to the vertex read through bind pairs between current incarnations, holds no unread datum and was an endpoint of a bind. Tie: correspondence on gc/limits/cycle histories with drain epilogue and on histories with merge, clone, slice and save/load in them; monC01 recomputes linkage/unread/bound from the raw history and judges the implementation's own trace.",
         "invariant + refinement proof in Lean 4; differential correspondence; history monitor", "7 C01"),
 "C02": ("proof", "Theorem A (Props.C02.exact_run): for every valid history the model never panics and all outputs equal those of the slot-free reference R; Props.C02.alive_set after every call; group rules and last_read_collects / earlier_reads_keep on R. The implementation's keys() after every call are compared with R's by monC02.",
         "refinement to an abstract reference, proved by induction over histories; differential correspondence", "7 C02"),
 "C03": ("proof", "Reference lemmas (kid_after_bind, kid_frame_bind, edges_frame, lookup_upsert, data_after_put, read_returns_and_keeps, data_frame, created_blank) transported to the model by Theorem A (answers_are_reference). monC03 recomputes last bind / last put from the raw history and compares with the implementation's kid/kids/data answers and with the entries shown after every call.",
         "refinement + frame lemmas; differential correspondence; history monitor", "7 C03"),
 "C04": ("proof", "Props.C04.add_present_noop (state equality on the model, any state) and add_absent_blank (blank slot, nothing else touched), plus the reference versions; monC04 checks after every add() that an absent id shows no edges and no data marker and a present id changes nothing.",
         "direct proof on the model; differential correspondence; monitor", "7 C04"),
 "C05": ("proof", "Props.C05.next_id_spec, position_monotone, never_repeats (ids returned along any history from any state are pairwise distinct), above_start (a clone continues above the original's position); model = reference by Theorem A; programs over the API refine. monC05 checks below-capacity / absent / not-returned-before on the implementation's answers. On graphs with slots removed by join() (Core/HolesAlloc.lean): nextIdX_spec, next_stepX, nextIdX_never_again (for every call sequence, valid or not).",
         "monotone-position invariant, induction over histories; differential correspondence; monitor", "7 C05"),
 "C06": ("proof", "Theorem A is unbounded in the history length (sustained); bind_valid_below_14 + group_formed + free_slot_exists (a free slot among 2..15 exists whenever fewer than 14 groups live, whatever happened before). Tie: cycle profile (hundreds of create-put-read cycles, 0..13 long-lived groups).",
         "refinement with slot-recycling invariant; long-history correspondence", "7 C06"),
 "C19": ("proof", "Props.C19.config_independent: a history valid under two configurations gets identical outputs under both (kids order, next_id ids included); step_independent on the reference. Tie: each generated history is executed on the real code under four other configurations / a fresh process and the traces must be identical, and equal to the model's.",
         "corollary of the refinement (reference does not mention N; capacity only bounds two enumerations); implementation-vs-implementation comparison", "7 C19"),
}

PURE = "Modelled, not verified: Rust slice-index semantics, hex::decode, integer/char formatting and parsing of std. "
CHECKS.update({
 "C15": ("proof", "Props.C15: for every well-formed Hex (both public variants, arbitrary padding) index/range (six kinds)/byte_at/tail equal the Rust slice semantics on the byte string, hence panic exactly when the slice would (index_eq … rangeToIncl_eq, tail_eq, representation_independent); fromStr_print; the i64/f64 conversions on the 64-bit pattern are bit-exact inverses that fail for any length other than 8; beyond the statement, the rest of Hex's conversions are modelled and compared too: From<i8/i16/i32/f32> (ofBitsW_length, val_ofBitsW), From<bool>/to_bool (toBool_ofBool, toBool_panics_iff), from_str_bytes/to_utf8 (utf8_text_roundtrip, utf8_exact: to_utf8 succeeds exactly on encodings of texts). Tie: exhaustive small-scope run of the real accessors, each line carrying the real byte slice's answer, compared with the model and judged by monC15.",
         "algebraic laws proved for all inputs in Lean 4; exhaustive small-scope differential correspondence", "7 C15"),
 "C16": ("proof", "KNOWN FINDING D9: the law is proved for the repaired variant (concatRepaired_law), proved for the code as found outside the defect class (concat_partial), the defect is characterised exactly (concat_defect_shape) and the full law refuted by a kernel-checked witness (concat_law_fails). The check matches the code against the as-found model, falling back to the repaired model; law failures inside the recorded class print KNOWN-FINDING, any other failure is a VIOLATION.",
         "proof of the partial law + proved negation; model-variant correspondence", "7 C16"),
 "C17": ("proof", "Props.C17: print_parse_text and parse_injective on legal texts, parse_print_label on canonical values, too_long_err, bad_index_err, and the as-found counter-example behind fix f00a87e. Tie: all strings up to length 3 over a 14-character alphabet, random longer ones, boundary index texts, canonical values incl. kid() lookups on a real graph; monC17 judges the implementation's answers by the statement.",
         "round-trip and injectivity theorems in Lean 4; exhaustive small-scope + random differential correspondence", "7 C17"),
})

SER = "Modelled, not verified: bincode's wire format and the serde impls (re-specified in Lean, compared byte for byte with the real image on every sampled graph); the file system beyond 'a crash leaves a prefix'. "
CHECKS.update({
 "C08": ("proof", "Props.C08.load_save / load_save_reachable: decode(encode g) = g with the allocator position at 0, for every graph satisfying the explicit predicate WfG and hence (ReachW.wfG) for every graph reachable by a valid history of representable calls, of the real label/datum types (per-type round-trip lemmas incl. UTF-8 chars, both Hex variants with padding); reload_refines + continuation_after_reload: the reloaded state refines the reference with position 0, so Theorem A gives identical answers under every continuation; next_id_after_reload = lowest absent id. Tie: real image == model encoding byte for byte; reload + same/different continuations on both handles, judged against the reference.",
         "codec round-trip theorem + refinement; byte-exact image correspondence; differential continuation", "7 C08"),
 "C09": ("proof", "Props.C09.truncated_rejected / truncated_rejected_reachable: for every well-formed graph — in particular every reachable one — and every k below the image size, load of the first k bytes is the EOF error (strict-parser combinators: decoder_strict). Tie: real image == model encoding; the real load() is run on the prefixes of the real file (quick: first/last 64 and every 7th cut point, thorough: all), each must be Err without panic. For graphs with slots removed by join() (every reachable graph): truncated_rejected_with_removed_slots (Codec/Holes.lean: the image with gaps in its keys, every proper prefix is EOF), profile joinser (images with one and two gaps, every cut point); the loadcuts monitor judges every handle; complete_image_with_removed_slots (Codec/HolesLoad.lean: the complete image of such a graph loads into a smaller store when the removed slots are the top ones and panics otherwise).",
         "strict-parser proof for all graphs and all cut points; fault enumeration of cut points on the real loader as correspondence", "7 C09"),
 "C10": ("proof", "PARTIAL. In the pure model clone is the identity, so same_future_partial is determinism and clone_refines puts each copy under Theorem A; independence/aliasing of the Rust containers' Clone impls cannot be expressed in the model and is decided by the correspondence: same continuation on both copies, different continuations with the untouched copy observed after every call, each handle judged against its own reference state. The statement is also written out on a world of handles over the total model (Props.C10.World): independent / independent_calls (a call on one handle leaves every other handle's graph as it is), clone_same_future (a clone gives the same answers as the original under the same subsequent calls — also beyond the limits and after panics — whatever was done to the original in between); by construction in a model of values, stated for visibility.",
         "trivial theorem + differential aliasing check (partial)", "7 C10"),
})

REN = "Modelled, not verified: xml-builder, the format strings, itertools sorting and the derived label order (re-specified in Lean; real texts parsed back and compared structurally). "
CHECKS.update({
 "C18": ("proof", "Props.C18 on the export document of the model (toXml/toDot = printer of exportDoc by definition): nodes_are_present_vertices, ascending, node_content (one entry per stored edge with label and target, data iff the vertex has data), same_content_same_text (via merge-sort of a permutation of distinct labels under the derived label order, proved strict total); and at the level of the XML text itself (Algo/RenderText.lean: the text character by character, a strict reader of the format): xml_reads_back (the reader recovers from the text alone one record per present vertex, every edge with its label as a label value and its target, the data as bytes, for labels that need no escaping) and xml_text_determines_document (the same text implies the same document, so different content gives different texts). Tie: the real to_xml()/to_dot() texts are parsed back into records and compared with the model's document; monC18 judges the parsed records against the reference state (present-only, edges, data, ascending) and compares the texts of graphs with equal content built differently. Graphs with slots removed by join(): nodes_are_present_vertices_with_removed_slots, node_content_with_removed_slots (the exports iterate vertices.iter(): blankHoles, keys_blankHoles).",
         "document-structure theorems and a proved left inverse of the XML printer in Lean 4; structural and exact-text correspondence of the real texts", "7 C18"),
 "C20": ("proof", "Props.C20: inspect_terminates for every reachable graph (EdgesBelow invariant + fuel bound), inspect_expands_reachable_once (expanded vertices are duplicate-free and exactly the reachable set), inspect_lists_every_edge_once (the edge entries are, as a multiset, the edges of the reachable vertices), debug_exact, vprint_exact. The line-producing recursion is proved to project onto the abstract seen-set recursion. Tie: inspect/Debug/Display/v_print texts parsed back and compared structurally; monC20 recounts the listed edges per reachable vertex against the reference; a call that gives no text (abort/time-out) is a violation attributed to that call. At the level of the text (Algo/RenderText.lean): inspect_text_lists_every_edge_once — a strict reader recovers from the text of inspect() alone the start vertex and every line (depth, label as a label value, target, ellipsis mark), and the entries so read are, as a multiset, exactly the edges of the reachable vertices. debug_text_reads_back (Algo/RenderDebug.lean): the same for Debug/Display — the reader recovers one record per present vertex in ascending order with all its edges (stored order, labels as label values) and its data as bytes, followed by exactly the lines of the group tables.",
         "DFS exactness and termination proofs in Lean 4; structural correspondence of the real texts", "7 C20"),
})

ALG = "Modelled, not verified: hash container iteration order (theorems hold for every order), anyhow's error text. "
CHECKS.update({
 "C11": ("proof", "Props.C11 on the two-pass program mergeRec2 (the one executed and compared with the real merge()): model_refines (program over the API, so C01-C03 keep applying), two_pass_is_first_pass, grafts (every path of the tree exists from `left`; everything the left graph had survives), data_and_injective, new_vertices (one new vertex per lacking path, under an absent id), tree_merge_is_ok, keeps_path_injectivity; two_pass_eq_first_pass (the second pass never reports a difference on a tree, at every node), run_succeeds (the run returns a table whenever its calls stay inside the limits) and merge_of_tree (end to end on the model: merge returns Ok, the state stays related to a reference state, every path of the tree exists from `left`, nothing of the left graph is lost). Tie: random tree pairs merged on the real code and on the model; monC11 checks paths/data markers/injectivity/preservation/new-vertex count on the observed graphs and compares outcome, alive set and the drain with the reference run. merge_in_full_is_merge: the model of merge() with join() in it (mergeX, Core/MergeHoles.lean) returns the same graph wherever merge answers Ok (Core/MergeAgree.lean).",
         "structural induction over trees + program refinement in Lean 4; differential correspondence; graft monitor", "7 C11"),
 "C12": ("proof", "Props.C12.ok_implies_complete and unreachable_gives_err (table keys are duplicate-free and reachable from `right`, so an unreachable present vertex makes the table strictly shorter and is named as missed), merge_outcome (the model makes the mapped.len()==g.len() test literally), model_refines. Tie: broken right graphs merged on the real code; monC12 accepts Ok only if every present right vertex is reachable and compares the ids named after 'missed:'. merge_in_full_same_outcome: Ok and Err (same missed vertices) carry over to mergeX, the model of merge() with join() in it.",
         "cardinality argument over the mapping table in Lean 4; differential correspondence", "7 C12"),
 "C13": ("proof", "Props.C13: done_is_reachable for every drain order, terminates for every reachable graph (fuel cap+1 never exhausted), slice_exact (present vertices = reachable set under original ids; each kept vertex has exactly the source's edges into kept vertices) for every reachable source graph whose rebuild stays within the limits, slice_small (the property's own quantifier: when at most 14 ids are kept every call of the rebuild is within the limits — Sodg.valid_rebuild —, so slice_some does not panic and the result is exact, with no validity hypothesis), rebuild_refines. Tie: slices of cyclic digraphs with rejection tables on the real code vs the model; monC13 checks the statement on the observed slice (kept set, accepted edges present, no foreign edge) and that the source is unchanged. Sources with slots removed by join(): slice_ignores_unreached_removed_slots, slice_reaching_a_removed_slot_panics (Algo/SliceHoles.lean); sources beyond the group limit or after a non-tree merge are judged without a reference state against their last full observation (sliceFree).",
         "work-list invariant, termination measure and rebuild refinement in Lean 4; differential correspondence", "7 C13"),
})

SCR = "Modelled, not verified: the regex crate's semantics of the four patterns, str::trim/split, usize::from_str (re-specified in Lean). "
CHECKS.update({
 "C14": ("proof", "Props.C14.deploy_render: for every program whose tokens have legal texts and every legal formatting (Unicode white space, comments, blanks before '(', padding, optional nu prefix, upper-case dashed data; deploy_render_general + data_any_spelling for other spellings) deploying the text on the model equals running the abstract program (same graph and variable table, same outcome, same count); count_is_length; malformed_not_ok; stops_at_first_failure. The model's deploy is literal, incl. the next_id() a variable takes before a later argument fails. Tie: rendered programs deployed on the real code vs the model, and vs the same direct calls on a second real graph (observations compared); single-fault corruptions classified by the model.",
         "parser/printer inversion theorems in Lean 4 (comment scanner, splitter, trim, LINE recogniser, token codecs); differential correspondence incl. implementation-vs-implementation", "7 C14"),
})

CHECKS.update({
 "C07": ("proof", "PARTIAL. Proved on the model: within_limits_complete (valid calls never panic, unbounded histories), id_overrun_panics / label_overrun_panics / member_overrun_panics, computed_indices_in_range; and, at C07's own quantifier (EVERY call sequence, valid or not, with any number of panics in it), on the total model stepT (Core/Total.lean: the state a call leaves behind even when it panics, and what the code does without a free group slot; total_agrees: equal to step wherever step answers): any_sequence_keeps_indices_in_range (after any call sequence from empty both tables have 16 entries, every tag is below 16, every member and edge target below the capacity, no list longer than 16, no vertex with more than N edges), panics_exactly_at (a call panics exactly at an id >= capacity, an (N+1)-th label, a 17-th member, a first read with a zero counter, an exhausted allocator), put_data_panic_only_on_caller_ids, merge_keeps_indices_in_range (the program of merge interpreted over the total step, Core/TotalProg.lean: Ok, Err or a panic half-way all leave every computed index in range), script_keeps_indices_in_range (deploy_to: to the end, Err at a malformed command, or a panicking call), slice_keeps_indices_in_range (the returned graph); and with join() of merge.rs inside the model (Core/Holes.lean, Core/MergeHoles.lean: graphs with removed slots, stepX, mergeX = merge() in full on arbitrary graphs): without_removed_slots_same_step, any_sequence_with_joins_keeps_indices_in_range, merge_of_any_graphs_keeps_indices_in_range (trees or not, Ok, Err or a panic half-way, inside join or outside). Not provable in a model: what the unsafe container code does to memory — examined by executing every operation file (valid, limit-violating, and continued after caught panics) on a harness built with AddressSanitizer; outcomes and observations must match the total model call by call, also on every call after a panic (soak mode), any sanitizer report or abort is a violation.",
         "model-level theorems + AddressSanitizer-backed differential correspondence (partial)", "7 C07"),
})

NOT_YET = {}

def main():
    checks = []
    for pid, (level, text, tech, ref) in sorted(CHECKS.items()):
        checks.append({
            "property_id": pid,
            "quick_cmd": f"./check {pid} --tier quick",
            "thorough_cmd": f"./check {pid} --tier thorough",
            "evidence_file": f"/verif/evidence/{pid}.json",
            "replay_cmd_template": "./check replay {path}",
            "engine": "lean4+correspondence",
            "level_claimed": {"category": level, "text": text, "design_ref": "DESIGN.md section " + ref},
            "level_note": BASE + (PURE if pid in ("C15", "C16", "C17") else CONT + (SER if pid in ("C08", "C09") else "") + (REN if pid in ("C18", "C20") else "") + (ALG if pid in ("C11", "C12", "C13") else "") + (SCR if pid == "C14" else "")),
            "technique": tech,
        })
    props = [json.loads(l)["id"] for l in open(os.path.join(ROOT, "properties.jsonl"))]
    na = [{"property_id": p, "reason": NOT_YET.get(p, "not claimed yet: its check is still being built (see DESIGN.md section 9 for the order); no technique other than Lean 4 proof + correspondence is used in its place")}
          for p in props if p not in CHECKS]
    m = {
        "version": 1,
        "setup_cmd": "./check setup",
        "hooks": {
            "guard": "cargo feature `verif` (off by default)",
            "enable": "harness/Cargo.toml depends on sodg by path with features = [\"verif\"]; cargo build --offline in /verif/harness rebuilds from /repo's working tree",
            "baseline_off_cmd": "cd /repo && (cargo nextest run --workspace --no-fail-fast --offline || cargo test --workspace --no-fail-fast --offline)",
            "source_commits": ["d3e00782701f711743fff64a2a4246074d7d1f23", "9ac87e7a6adaab2cb86df88b1c047f064b8b662e"],
            "add_only": True,
        },
        "engines": [{"name": "lean4+correspondence", "path": "/verif/check", "serves_properties": sorted(CHECKS),
                     "kind_free_text": "Lean 4 model + theorems (lean/), native driver (model | gen | judge), Rust harness on the real crate (harness/), Python orchestrator (check)"}],
        "checks": checks,
        "not_applicable": na,
        "notes": "fix: commits in /repo: 45478af (GC accounting), e854949 (add), f00a87e (label rule), 7b9a6d5 (export filter); see known_findings.json and DESIGN.md section 2.",
    }
    json.dump(m, open(os.path.join(ROOT, "MANIFEST.json"), "w"), indent=1)

if __name__ == "__main__":
    main()
