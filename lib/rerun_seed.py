#!/usr/bin/env python3
"""Re-run checks against a kept seeded change: lib/rerun_seed.py <name> <property> [...]  (applies seeded/<name>/patch.diff to
/repo, runs the quick checks, restores /repo, updates meta.json and the corpus entry)."""
import sys, os, subprocess, json, re, time
ROOT = os.path.dirname(os.path.dirname(os.path.abspath(__file__)))
def sh(cmd, cwd):
    p = subprocess.run(cmd, cwd=cwd, shell=True, stdout=subprocess.PIPE, stderr=subprocess.STDOUT, text=True)
    return p.returncode, p.stdout
name, *props = sys.argv[1:]
d = os.path.join(ROOT, "seeded", name)
meta = json.load(open(os.path.join(d, "meta.json")))
rc, out = sh(f"git apply --check {d}/patch.diff && git apply {d}/patch.diff", "/repo")
assert rc == 0, out
try:
    for p in props:
        t0 = time.time()
        rc, out = sh(f"./check {p} --tier quick", ROOT)
        line = [l for l in out.split("\n") if l.startswith("VIOLATION") or l.startswith("KNOWN")]
        summary = [l for l in out.split("\n") if l.startswith(p + " [")]
        rep = None
        m = re.search(r"replay=(\S+)", "\n".join(line))
        if m and os.path.exists(m.group(1)):
            r = json.load(open(m.group(1)))
            rep = {"ops": r.get("ops"), "observed": r.get("observed"), "kind": r.get("kind"), "no_longer_checks": r.get("no_longer_checks"), "correspondence": r.get("correspondence")}
            if rep["ops"] and rep["kind"] == "implementation-violates-property" and p == meta["breaks_property"]:
                open(os.path.join(ROOT, "corpus", f"{p}_{name}.ops"), "w").write("\n".join(rep["ops"]) + "\n")
        meta["checks"][p] = {"exit": rc, "lines": line, "summary": summary, "replay": rep, "wall_s": round(time.time() - t0, 1)}
        print(p, "exit", rc, line, summary, (rep or {}).get("ops"), ((rep or {}).get("observed") or "")[:160])
finally:
    sh("git checkout -- .", "/repo")
meta["detected_by"] = [p for p, r in meta["checks"].items() if r["exit"] != 0]
json.dump(meta, open(os.path.join(d, "meta.json"), "w"), indent=1, ensure_ascii=False)
