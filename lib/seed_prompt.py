#!/usr/bin/env python3
"""Write the prompt for a seeding sub-agent: lib/seed_prompt.py <property> <suffix>  ->  /tmp/seedprompts/<property><suffix>.txt
and create the scratch worktree /tmp/seed/<property><suffix>. The prompt holds the property text, the rules and one line per
idea already taken for that property (from the NOTES.md of the kept changes) - nothing about how /verif checks anything."""
import sys, os, json, re, subprocess
ROOT = os.path.dirname(os.path.dirname(os.path.abspath(__file__)))
prop, suf = sys.argv[1], sys.argv[2]
extra = sys.argv[3] if len(sys.argv) > 3 else ""
name = prop + suf
wt = f"/tmp/seed/{name}"
p = [json.loads(l) for l in open(os.path.join(ROOT, "properties.jsonl")) if json.loads(l)["id"] == prop][0]
taken = []
for d in sorted(os.listdir(os.path.join(ROOT, "seeded"))):
    n = os.path.join(ROOT, "seeded", d, "NOTES.md")
    if d.startswith(prop) and os.path.exists(n):
        t = open(n).read()
        m = re.search(r"\*\*?change\*?\*?[^\n]*(?:\n(?!\s*\n)[^\n]*){0,3}", t, re.I) or re.search(r"CHANGE[^\n]*(?:\n(?!\s*\n)[^\n]*){0,3}", t)
        s = (m.group(0) if m else t[:400]).replace("\n", " ")
        taken.append("- " + re.sub(r"\s+", " ", s)[:420])
if not os.path.isdir(wt):
    subprocess.run(f"git -C /repo worktree add --detach {wt} HEAD -q", shell=True, check=True)
txt = f"""You are testing how well a verification suite for the Rust crate objectionary/sodg detects realistic regressions.
You work ONLY in the scratch git worktree {wt} (a checkout of the crate; it is yours alone). Do not read or write
anything under /repo or /verif, do not commit, and never use `git stash` (the stash is shared between worktrees).
There is no network: build and test with `CARGO_NET_OFFLINE=true cargo test --offline ...` (first build takes about a minute).

The property (a semantic guarantee users of the crate rely on):

id: {p['id']} - {p['title']}
statement: {p['statement']}
quantifier: {p['quantifier']['text']}
why tests cannot settle it: {p['why_tests_cant']}
anchors: {json.dumps(p.get('anchors', {}), ensure_ascii=False)}

Your task: make ONE change to the crate's source (src/*.rs; small, at most ~40 changed lines, possibly two cooperating
sites that each look fine alone) that BREAKS this property, yet
  * compiles without errors (and preferably without new warnings),
  * still passes the whole existing test suite unchanged: `cargo test --offline --lib` (94 tests) and
    `cargo test --offline --doc` (42 doc-tests) - do not edit existing tests,
  * looks like something a maintainer could plausibly commit (an optimisation, a clean-up, a refactoring, a "defensive"
    guard, a new fast path, caching, a changed data-structure choice ...), not an obvious sabotage,
  * needs something SPECIFIC to manifest - a particular multi-step sequence of calls, an unusual input, a particular
    size/boundary, a particular state reached only after earlier events (collection, re-creation of an id, clone, reload,
    a failed call before, several graphs in one process, ...), or two cooperating sites - NOT something the first ordinary
    use would expose at once. The rarer and more "far from the unit tests" the trigger, the better, as long as the
    triggering situation is inside the property's quantifier (read it carefully: calls within the stated limits and
    preconditions; a change that only shows outside them does not count).
Do not gate the behaviour on magic constants, environment variables, time, randomness or thread ids just to hide it; the
trigger must be a natural consequence of the code you wrote.
{extra}
Ideas already taken for this property (do NOT repeat them or close variants; find a different mechanism, a different
function or a different triggering situation):
{chr(10).join(taken) if taken else '- (none yet)'}

Deliverables, all inside {wt}, with the change left applied (uncommitted) in the working tree:
  1. the change itself in src/ (nothing else under src/ changed; do not touch Cargo.toml, Cargo.lock or existing tests);
  2. tests/seeded_demo.rs - an integration test (uses only the crate's public API: `use sodg::...`) that FAILS with your
     change and PASSES on the unchanged crate. Verify both yourself: run it with the change; then save your diff with
     `git diff -- src > /tmp/seed/{name}.diff`, undo with `git apply -R /tmp/seed/{name}.diff`, run the demo (must pass),
     and re-apply with `git apply /tmp/seed/{name}.diff`. Also run the full unit and doc test suites with the change applied.
  3. NOTES.md with three short paragraphs: **Change** (file, function, what), **Why it breaks {p['id']}** and
     **What it needs to manifest** (the exact situation / minimal call sequence).
Finish with a short report: the change, the trigger, and the test results you observed (numbers of passed tests)."""
os.makedirs("/tmp/seedprompts", exist_ok=True)
open(f"/tmp/seedprompts/{name}.txt", "w").write(txt)
print(f"/tmp/seedprompts/{name}.txt", len(txt), "chars;", len(taken), "ideas taken")
